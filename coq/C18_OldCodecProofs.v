(* C18_OldCodecProofs: the OLD codec of examples/protobuf/codec/codec.cc (C18_OldCodec) is a
   fourth instance of the generic chunk-fed decoder: one literal loop iteration = the reference
   split [oref_split] for every buffer; it is progressing and prefix-determined, hence
   segmentation invariant by the generic theorem of C18_StreamProofs; chunk-fed literal decoder =
   reference decoding of the concatenation; no bounds-checked read ever fails; round trip with
   the encoder's wire format. *)
From Coq Require Import List ZArith Lia Bool Arith NArith.
From Coq.Strings Require Import Byte.
From Muduo Require Import Base_Bytes Gen_Consts Gen_C18 C18_Model C18_StreamProofs C18_CodecProofs C18_OldCodec.
Import ListNotations.
Local Open Scope Z_scope.

Lemma okHeaderLen_val : okHeaderLen = 4. Proof. reflexivity. Qed.
Lemma okMinMessageLen_val : okMinMessageLen = 10. Proof. reflexivity. Qed.
Lemma okMaxMessageLen_val : okMaxMessageLen = 64 * 1024 * 1024. Proof. reflexivity. Qed.
(* the constants as the header derives them: kMinMessageLen = 2*kHeaderLen + 2 (nameLen + 2 name bytes + checkSum) *)
Lemma okMin_derivation : okMinMessageLen = 2 * okHeaderLen + 2. Proof. reflexivity. Qed.

Section OldCodecProofs.
  Variable msg : Type.
  Variable create : list byte -> bool.
  Variable parse : list byte -> list byte -> option msg.

  Notation ostep := (ostep msg create parse).
  Notation oref_split := (oref_split msg create parse).
  Notation oref_decode := (oref_decode msg create parse).
  Notation sresT := (sres unit (cevent msg)).
  Notation step_of_ref := (step_of_ref msg).

  (* the verdict on a complete frame body (the [size] bytes after the length field) *)
  Definition oframe_result (size : Z) (n : nat) (body rest : list byte) : ref_frame msg :=
    let covered := firstn (n - 4) body in
    let ck := skipn (n - 4) body in
    if negb (be_decode ck =? adler32 covered) then RBad msg kCheckSumError
    else
      let nameLen := be_decode_signed (firstn 4 covered) in
      if (nameLen <? 2) || (size - 8 <? nameLen) then RBad msg kInvalidNameLen
      else
        let k := Z.to_nat nameLen in
        let name := firstn (k - 1) (skipn 4 covered) in
        let data := skipn (4 + k) covered in
        if negb (create name) then RBad msg kUnknownMessageType
        else match parse name data with
             | None => RBad msg kParseError
             | Some m => RFrame msg m rest
             end.

  Lemma oref_split_eq s : oref_split s =
    if (length s <? 4 + 10)%nat then RIncomplete msg
    else
      let size := be_decode_signed (firstn 4 s) in
      if (size <? 10) || (64 * 1024 * 1024 <? size) then RBad msg kInvalidLength
      else
        let n := Z.to_nat size in
        if (length s <? 4 + n)%nat then RIncomplete msg
        else oframe_result size n (firstn n (skipn 4 s)) (skipn (4 + n) s).
  Proof. reflexivity. Qed.

  (* ---- literal loop body = reference split, for every buffer --------------- *)
  Lemma ostep_ref : forall u b, ostep u b = step_of_ref (oref_split b).
  Proof.
    intros u b. rewrite oref_split_eq. unfold C18_OldCodec.ostep.
    rewrite okHeaderLen_val, okMinMessageLen_val, Z.geb_leb.
    destruct (Z.leb_spec (10 + 4) (Z.of_nat (length b))) as [H1|H1];
      destruct (Nat.ltb_spec (length b) (4 + 10)) as [H1'|H1']; try lia; [|reflexivity].
    rewrite (read_at_ok b 0 4) by lia.
    change (Z.to_nat 0) with 0%nat. change (Z.to_nat 4) with 4%nat. change (skipn 0 b) with b.
    set (size := be_decode_signed (firstn 4 b)). cbv zeta.
    unfold olength_bad. rewrite okMaxMessageLen_val, okMinMessageLen_val, Z.gtb_ltb.
    rewrite orb_comm.
    destruct ((size <? 10) || (64 * 1024 * 1024 <? size)) eqn:Eb; [reflexivity|].
    apply orb_false_iff in Eb as [Eb1 Eb2]. apply Z.ltb_ge in Eb1, Eb2.
    set (n := Z.to_nat size).
    assert (Hn : Z.of_nat n = size) by (unfold n; lia).
    rewrite Z.geb_leb.
    destruct (Z.leb_spec (size + 4) (Z.of_nat (length b))) as [H2|H2];
      destruct (Nat.ltb_spec (length b) (4 + n)) as [H2'|H2']; try lia; [|reflexivity].
    (* the complete frame *)
    unfold oparse_frame. rewrite okHeaderLen_val.
    rewrite (read_at_ok b (4 + size - 4) 4) by lia.
    rewrite (read_at_ok b 4 (size - 4)) by lia.
    change (Z.to_nat 4) with 4%nat.
    replace (Z.to_nat (4 + size - 4)) with n by lia.
    replace (Z.to_nat (size - 4)) with (n - 4)%nat by lia.
    unfold oframe_result.
    set (body := firstn n (skipn 4 b)).
    assert (Hcov : firstn (n - 4) body = firstn (n - 4) (skipn 4 b)).
    { unfold body. rewrite firstn_firstn. f_equal. lia. }
    assert (Hck : skipn (n - 4) body = firstn 4 (skipn n b)).
    { unfold body. rewrite skipn_firstn_comm, skipn_add. f_equal; [lia|f_equal; lia]. }
    rewrite Hcov, Hck.
    set (cov := firstn (n - 4) (skipn 4 b)). set (ck := firstn 4 (skipn n b)).
    assert (Lck : length ck = 4%nat).
    { unfold ck. rewrite firstn_length, skipn_length. lia. }
    assert (Lcov : length cov = (n - 4)%nat).
    { unfold cov. rewrite firstn_length, skipn_length. lia. }
    unfold checksum32, be_decode_signed at 1. rewrite Lck.
    rewrite to_signed4_eqb by (first [apply adler32_range | apply be_decode4_range; exact Lck]).
    rewrite (Z.eqb_sym (adler32 cov)).
    destruct (be_decode ck =? adler32 cov); cbn [negb]; [|reflexivity].
    (* nameLen *)
    rewrite (read_at_ok b 4 4) by lia. change (Z.to_nat 4) with 4%nat.
    assert (Hnl : firstn 4 cov = firstn 4 (skipn 4 b)).
    { unfold cov. rewrite firstn_firstn. f_equal. lia. }
    rewrite Hnl. set (nameLen := be_decode_signed (firstn 4 (skipn 4 b))).
    rewrite Z.geb_leb.
    destruct (Z.leb_spec 2 nameLen) as [N1|N1]; destruct (Z.ltb_spec nameLen 2) as [N1'|N1']; try lia;
      cbn [andb orb]; [|reflexivity].
    destruct (Z.leb_spec nameLen (size - 2 * 4)) as [N2|N2]; destruct (Z.ltb_spec (size - 8) nameLen) as [N2'|N2'];
      try lia; [|reflexivity].
    set (k := Z.to_nat nameLen).
    (* typeName *)
    rewrite (read_at_ok b (4 + 4) (nameLen - 1)) by lia.
    assert (Hname : firstn (k - 1) (skipn 4 cov) = firstn (Z.to_nat (nameLen - 1)) (skipn (Z.to_nat (4 + 4)) b)).
    { unfold cov. rewrite skipn_firstn_comm, firstn_firstn, skipn_add. f_equal; try lia; try (f_equal; lia). }
    rewrite Hname.
    destruct (create (firstn (Z.to_nat (nameLen - 1)) (skipn (Z.to_nat (4 + 4)) b))); cbn [negb]; [|reflexivity].
    (* protobufData *)
    rewrite (read_at_ok b (4 + 4 + nameLen) (size - nameLen - 2 * 4)) by lia.
    assert (Hdata : skipn (4 + k) cov =
                    firstn (Z.to_nat (size - nameLen - 2 * 4)) (skipn (Z.to_nat (4 + 4 + nameLen)) b)).
    { unfold cov. rewrite skipn_firstn_comm, skipn_add. f_equal; try lia; try (f_equal; lia). }
    rewrite Hdata.
    destruct (parse _ _) as [m|]; [|reflexivity].
    rewrite (retrieve_ok b (4 + size)) by lia.
    replace (Z.to_nat (4 + size)) with (4 + n)%nat by lia. reflexivity.
  Qed.

  (* ---- prefix-determinacy of the reference split ------------------------------ *)
  Lemma oref_split_frame_mono b c m r :
    oref_split b = RFrame msg m r -> oref_split (b ++ c) = RFrame msg m (r ++ c).
  Proof.
    rewrite !oref_split_eq. rewrite app_length.
    destruct (Nat.ltb_spec (length b) (4 + 10)) as [H1|H1]; [discriminate|].
    destruct (Nat.ltb_spec (length b + length c) (4 + 10)) as [H1'|H1']; [lia|].
    rewrite (firstn_app_le 4 b c) by lia. cbv zeta.
    destruct ((be_decode_signed (firstn 4 b) <? 10)
              || (64 * 1024 * 1024 <? be_decode_signed (firstn 4 b))); [discriminate|].
    set (n := Z.to_nat (be_decode_signed (firstn 4 b))).
    destruct (Nat.ltb_spec (length b) (4 + n)) as [H2|H2]; [discriminate|].
    destruct (Nat.ltb_spec (length b + length c) (4 + n)) as [H2'|H2']; [lia|].
    rewrite (skipn_app_le 4 b c) by lia.
    rewrite (firstn_app_le n (skipn 4 b) c) by (rewrite skipn_length; lia).
    rewrite (skipn_app_le (4 + n) b c) by lia.
    unfold oframe_result.
    destruct (negb _); [discriminate|]. destruct (_ || _); [discriminate|]. destruct (negb _); [discriminate|].
    destruct (parse _ _); [|discriminate]. intros H; inversion H; subst. reflexivity.
  Qed.

  Lemma oref_split_bad_mono b c e :
    oref_split b = RBad msg e -> oref_split (b ++ c) = RBad msg e.
  Proof.
    rewrite !oref_split_eq. rewrite app_length.
    destruct (Nat.ltb_spec (length b) (4 + 10)) as [H1|H1]; [discriminate|].
    destruct (Nat.ltb_spec (length b + length c) (4 + 10)) as [H1'|H1']; [lia|].
    rewrite (firstn_app_le 4 b c) by lia. cbv zeta.
    destruct ((be_decode_signed (firstn 4 b) <? 10)
              || (64 * 1024 * 1024 <? be_decode_signed (firstn 4 b))); [tauto|].
    set (n := Z.to_nat (be_decode_signed (firstn 4 b))).
    destruct (Nat.ltb_spec (length b) (4 + n)) as [H2|H2]; [discriminate|].
    destruct (Nat.ltb_spec (length b + length c) (4 + n)) as [H2'|H2']; [lia|].
    rewrite (skipn_app_le 4 b c) by lia.
    rewrite (firstn_app_le n (skipn 4 b) c) by (rewrite skipn_length; lia).
    rewrite (skipn_app_le (4 + n) b c) by lia.
    unfold oframe_result.
    destruct (negb _); [tauto|]. destruct (_ || _); [tauto|]. destruct (negb _); [tauto|].
    destruct (parse _ _); [discriminate|tauto].
  Qed.

  Lemma oref_split_frame_len b m r :
    oref_split b = RFrame msg m r -> (length r + (4 + 10) <= length b)%nat.
  Proof.
    rewrite oref_split_eq.
    destruct (Nat.ltb_spec (length b) (4 + 10)) as [H1|H1]; [discriminate|]. cbv zeta.
    destruct ((be_decode_signed (firstn 4 b) <? 10)
              || (64 * 1024 * 1024 <? be_decode_signed (firstn 4 b))) eqn:Eb; [discriminate|].
    apply orb_false_iff in Eb as [Eb1 Eb2]. apply Z.ltb_ge in Eb1, Eb2.
    set (n := Z.to_nat (be_decode_signed (firstn 4 b))) in *.
    destruct (Nat.ltb_spec (length b) (4 + n)) as [H2|H2]; [discriminate|].
    remember (skipn (4 + n) b) as rr eqn:Err.
    unfold oframe_result.
    destruct (negb _); [discriminate|]. destruct (_ || _); [discriminate|]. destruct (negb _); [discriminate|].
    destruct (parse _ _); [|discriminate]. intros H; injection H as _ Hr. rewrite <- Hr, Err.
    rewrite skipn_length. lia.
  Qed.

  (* ---- the three hypotheses of the generic segmentation theorem -------------- *)
  Lemma ostep_shrinks : forall s b evs s' r, ostep s b = SEmit evs s' r -> (length r < length b)%nat.
  Proof.
    intros s b evs s' r H. rewrite ostep_ref in H.
    destruct (oref_split b) as [|e|m rest] eqn:E; cbn [C18_CodecProofs.step_of_ref] in H; try discriminate.
    inversion H; subst. apply oref_split_frame_len in E. lia.
  Qed.
  Lemma ostep_emit_mono : forall s b evs s' r c,
    ostep s b = SEmit evs s' r -> ostep s (b ++ c) = SEmit evs s' (r ++ c).
  Proof.
    intros s b evs s' r c H. rewrite ostep_ref in *.
    destruct (oref_split b) as [|e|m rest] eqn:E; cbn [C18_CodecProofs.step_of_ref] in H; try discriminate.
    inversion H; subst. rewrite (oref_split_frame_mono _ c _ _ E). reflexivity.
  Qed.
  Lemma ostep_stop_mono : forall s b evs c, ostep s b = SStop evs -> ostep s (b ++ c) = SStop evs.
  Proof.
    intros s b evs c H. rewrite ostep_ref in *.
    destruct (oref_split b) as [|e|m rest] eqn:E; cbn [C18_CodecProofs.step_of_ref] in H; try discriminate.
    inversion H; subst. rewrite (oref_split_bad_mono _ c _ E). reflexivity.
  Qed.

  Notation run := (run ostep).
  Notation ofeed := (ocodec_feed msg create parse).
  Notation ofeed_all := (ocodec_feed_all msg create parse).

  Definition odecode (s : list byte) : list (cevent msg) * dstate unit := run (S (length s)) tt s.

  Lemma ocodec_init_settled : settled unit (cevent msg) ostep ocodec_init.
  Proof. apply init_settled. rewrite ostep_ref, oref_split_eq. reflexivity. Qed.

  (* segmentation invariance: the whole result (events, unconsumed bytes, abandoned, fuel) *)
  Theorem old_codec_seg_invariant : forall chunks,
    ofeed_all ocodec_init chunks = ofeed ocodec_init (concat chunks).
  Proof.
    intros chunks. unfold ocodec_feed_all, ocodec_feed.
    apply (feed_all_concat unit (cevent msg) ostep ostep_shrinks ostep_emit_mono ostep_stop_mono).
    exact ocodec_init_settled.
  Qed.

  Theorem old_codec_no_oof : forall chunks, d_oof (snd (ofeed_all ocodec_init chunks)) = false.
  Proof.
    intros chunks. unfold ocodec_feed_all.
    apply (feed_all_no_oof unit (cevent msg) ostep ostep_shrinks). reflexivity.
  Qed.

  Lemma ofeed_all_decode chunks : ofeed_all ocodec_init chunks = odecode (concat chunks).
  Proof. rewrite old_codec_seg_invariant. reflexivity. Qed.

  (* ---- equality with the reference decoder ---------------------------------- *)
  Lemma orun_ref : forall fuel s, (length s < fuel)%nat ->
    run fuel tt s = of_ref msg (oref_decode fuel s).
  Proof.
    induction fuel as [|f IH]; intros s H; [lia|].
    cbn [C18_Model.run C18_OldCodec.oref_decode]. rewrite ostep_ref.
    destruct (oref_split s) as [|e|m rest] eqn:E; cbn [C18_CodecProofs.step_of_ref]; try reflexivity.
    apply oref_split_frame_len in E. rewrite (IH rest) by lia.
    destruct (oref_decode f rest) as [[ms e] r]. reflexivity.
  Qed.

  Theorem old_codec_equals_reference : forall chunks,
    let s := concat chunks in
    ofeed_all ocodec_init chunks =
    (let '(ms, e, rest) := oref_decode (S (length s)) s in
     (map CMsg ms ++ match e with Some x => [CErr x] | None => [] end,
      mkD tt rest (match e with Some _ => true | None => false end) false)).
  Proof.
    intros chunks. cbv zeta. rewrite ofeed_all_decode. unfold odecode. rewrite orun_ref by lia.
    unfold of_ref, ref_events. destruct (oref_decode _ _) as [[ms e] rest]. reflexivity.
  Qed.

  (* ---- no bounds-checked read fails, the loop terminates ------------------------ *)
  Theorem old_codec_reads_in_bounds : forall chunks,
    ~ In CFault (fst (ofeed_all ocodec_init chunks)) /\ d_oof (snd (ofeed_all ocodec_init chunks)) = false.
  Proof.
    intros chunks. split; [|apply old_codec_no_oof].
    pose proof (old_codec_equals_reference chunks) as H. cbv zeta in H. rewrite H.
    destruct (oref_decode _ _) as [[ms e] rest]. cbn [fst]. intros Hin.
    apply in_app_or in Hin as [Hin|Hin].
    - apply in_map_iff in Hin as (m & Hm & _). discriminate Hm.
    - destruct e; [destruct Hin as [Hin|[]]; discriminate Hin|exact Hin].
  Qed.

  (* ---- the encoder's frame is a frame of the reference ---------------------------- *)
  Definition ofits (tn data : list byte) : Prop :=
    Z.of_nat (length tn) + 1 + Z.of_nat (length data) + 8 <= 64 * 1024 * 1024.

  Lemma oencode_split tn data rest : tn <> [] -> ofits tn data ->
    oref_split (oencode tn data ++ rest) =
    if negb (create tn) then RBad msg kUnknownMessageType
    else match parse tn data with None => RBad msg kParseError | Some m => RFrame msg m rest end.
  Proof.
    intros Hne Hf. unfold ofits in Hf. unfold oencode.
    assert (Ltn : (1 <= length tn)%nat) by (destruct tn; [contradiction|cbn [length]; lia]).
    set (nl := Z.of_nat (length tn) + 1).
    set (cov := be_encode 4 nl ++ tn ++ [x00] ++ data).
    assert (Lcov : length cov = (4 + (length tn + (1 + length data)))%nat).
    { unfold cov. rewrite !app_length, be_encode_length. reflexivity. }
    set (size := Z.of_nat (length cov) + 4).
    assert (Hsz : 10 <= size <= 64 * 1024 * 1024) by (unfold size; rewrite Lcov; lia).
    set (l4 := be_encode 4 size). set (ck := be_encode 4 (adler32 cov)).
    assert (L4 : length l4 = 4%nat) by apply be_encode_length.
    assert (Lck : length ck = 4%nat) by apply be_encode_length.
    replace ((l4 ++ cov ++ ck) ++ rest) with (l4 ++ (cov ++ ck) ++ rest) by (rewrite <- !app_assoc; reflexivity).
    rewrite oref_split_eq. rewrite !app_length, L4, Lck, Lcov.
    destruct (Nat.ltb_spec (4 + (4 + (length tn + (1 + length data)) + 4 + length rest)) (4 + 10)) as [H1|H1]; [lia|].
    rewrite (firstn_app_len 4 l4) by exact L4.
    assert (Hd : be_decode_signed l4 = size) by (unfold l4; apply be_signed4; lia).
    rewrite Hd. cbv zeta.
    destruct (Z.ltb_spec size 10); [lia|]. destruct (Z.ltb_spec (64 * 1024 * 1024) size); [lia|]. cbn [orb].
    set (n := Z.to_nat size).
    assert (Hn : n = (length cov + 4)%nat) by (unfold n, size; lia).
    destruct (Nat.ltb_spec (4 + (4 + (length tn + (1 + length data)) + 4 + length rest)) (4 + n)) as [H2|H2];
      [rewrite Hn, Lcov in H2; lia|].
    rewrite (skipn_app_len 4 l4) by exact L4.
    rewrite (firstn_app_len n (cov ++ ck)) by (rewrite app_length; lia).
    replace (l4 ++ (cov ++ ck) ++ rest) with ((l4 ++ cov ++ ck) ++ rest) by (rewrite <- !app_assoc; reflexivity).
    rewrite (skipn_app_len (4 + n) (l4 ++ cov ++ ck)) by (rewrite !app_length; lia).
    unfold oframe_result.
    replace (n - 4)%nat with (length cov) by lia.
    rewrite firstn_app_exact, skipn_app_exact.
    unfold ck. rewrite be_unsigned_roundtrip by apply adler32_range.
    rewrite Z.eqb_refl. cbn [negb].
    assert (Hnl : be_decode_signed (firstn 4 cov) = nl).
    { unfold cov. rewrite (firstn_app_len 4 (be_encode 4 nl)) by apply be_encode_length.
      apply be_signed4. unfold nl. lia. }
    rewrite Hnl.
    destruct (Z.ltb_spec nl 2); [unfold nl in *; lia|].
    destruct (Z.ltb_spec (size - 8) nl); [unfold nl, size in *; rewrite Lcov in *; lia|]. cbn [orb].
    replace (Z.to_nat nl) with (length tn + 1)%nat by (unfold nl; lia).
    assert (Hname : firstn (length tn + 1 - 1) (skipn 4 cov) = tn).
    { unfold cov. rewrite (skipn_app_len 4 (be_encode 4 nl)) by apply be_encode_length.
      replace (length tn + 1 - 1)%nat with (length tn) by lia. apply firstn_app_exact. }
    assert (Hdata : skipn (4 + (length tn + 1)) cov = data).
    { unfold cov. replace (be_encode 4 nl ++ tn ++ [x00] ++ data) with ((be_encode 4 nl ++ tn ++ [x00]) ++ data)
        by (rewrite <- !app_assoc; reflexivity).
      apply skipn_app_len. rewrite !app_length, be_encode_length. cbn [length]. lia. }
    rewrite Hname, Hdata. reflexivity.
  Qed.

  (* a framed head: size, covered bytes (nameLen, typeName, protobufData), 4 trailer bytes, anything after *)
  Lemma oref_split_framed cov ck rest :
    length ck = 4%nat -> (6 <= length cov)%nat -> Z.of_nat (length cov) + 4 <= 64 * 1024 * 1024 ->
    oref_split (be_encode 4 (Z.of_nat (length cov) + 4) ++ cov ++ ck ++ rest) =
    (if negb (be_decode ck =? adler32 cov) then RBad msg kCheckSumError
     else
       let nameLen := be_decode_signed (firstn 4 cov) in
       if (nameLen <? 2) || (Z.of_nat (length cov) - 4 <? nameLen) then RBad msg kInvalidNameLen
       else
         let k := Z.to_nat nameLen in
         let name := firstn (k - 1) (skipn 4 cov) in
         let data := skipn (4 + k) cov in
         if negb (create name) then RBad msg kUnknownMessageType
         else match parse name data with
              | None => RBad msg kParseError
              | Some m => RFrame msg m rest
              end).
  Proof.
    intros Lck Lcov Hmax. set (size := Z.of_nat (length cov) + 4).
    set (l4 := be_encode 4 size).
    assert (L4 : length l4 = 4%nat) by apply be_encode_length.
    rewrite oref_split_eq. rewrite !app_length, L4, Lck.
    destruct (Nat.ltb_spec (4 + (length cov + (4 + length rest))) (4 + 10)) as [H1|H1]; [lia|].
    rewrite (firstn_app_len 4 l4) by exact L4.
    assert (Hd : be_decode_signed l4 = size) by (unfold l4; apply be_signed4; unfold size; lia).
    rewrite Hd. cbv zeta.
    destruct (Z.ltb_spec size 10); [unfold size in *; lia|].
    destruct (Z.ltb_spec (64 * 1024 * 1024) size); [unfold size in *; lia|]. cbn [orb].
    set (n := Z.to_nat size).
    assert (Hn : n = (length cov + 4)%nat) by (unfold n, size; lia).
    destruct (Nat.ltb_spec (4 + (length cov + (4 + length rest))) (4 + n)) as [H2|H2]; [lia|].
    rewrite (skipn_app_len 4 l4) by exact L4.
    replace (cov ++ ck ++ rest) with ((cov ++ ck) ++ rest) by (rewrite <- app_assoc; reflexivity).
    rewrite (firstn_app_len n (cov ++ ck)) by (rewrite app_length; lia).
    replace (l4 ++ (cov ++ ck) ++ rest) with ((l4 ++ cov ++ ck) ++ rest) by (rewrite <- !app_assoc; reflexivity).
    rewrite (skipn_app_len (4 + n) (l4 ++ cov ++ ck)) by (rewrite !app_length; lia).
    unfold oframe_result.
    replace (n - 4)%nat with (length cov) by lia.
    rewrite firstn_app_exact, skipn_app_exact.
    replace (size - 8) with (Z.of_nat (length cov) - 4) by (unfold size; lia). reflexivity.
  Qed.

  (* the reject classes of this codec as hypotheses on the head t of old_codec_reject *)
  Lemma obad_length t : (4 + 10 <= length t)%nat ->
    (be_decode_signed (firstn 4 t) < 10 \/ 64 * 1024 * 1024 < be_decode_signed (firstn 4 t)) ->
    oref_split t = RBad msg kInvalidLength.
  Proof.
    intros H1 H2. rewrite oref_split_eq. destruct (Nat.ltb_spec (length t) (4 + 10)); [lia|]. cbv zeta.
    destruct (Z.ltb_spec (be_decode_signed (firstn 4 t)) 10); [reflexivity|].
    destruct (Z.ltb_spec (64 * 1024 * 1024) (be_decode_signed (firstn 4 t))); [reflexivity|lia].
  Qed.

  Lemma obad_checksum cov ck rest :
    length ck = 4%nat -> (6 <= length cov)%nat -> Z.of_nat (length cov) + 4 <= 64 * 1024 * 1024 ->
    be_decode ck <> adler32 cov ->
    oref_split (be_encode 4 (Z.of_nat (length cov) + 4) ++ cov ++ ck ++ rest) = RBad msg kCheckSumError.
  Proof.
    intros Lck Lcov Hmax Hne. rewrite oref_split_framed by assumption.
    destruct (Z.eqb_spec (be_decode ck) (adler32 cov)); [contradiction|reflexivity].
  Qed.

  (* the class only this codec has: a correctly checksummed frame whose nameLen field is below 2
     or does not leave room for the name inside the frame *)
  Lemma obad_namelen cov rest :
    (6 <= length cov)%nat -> Z.of_nat (length cov) + 4 <= 64 * 1024 * 1024 ->
    (be_decode_signed (firstn 4 cov) < 2 \/ Z.of_nat (length cov) - 4 < be_decode_signed (firstn 4 cov)) ->
    oref_split (be_encode 4 (Z.of_nat (length cov) + 4) ++ cov ++ be_encode 4 (adler32 cov) ++ rest) =
    RBad msg kInvalidNameLen.
  Proof.
    intros Lcov Hmax Hnl. rewrite oref_split_framed; [|apply be_encode_length|assumption|assumption].
    rewrite be_unsigned_roundtrip by apply adler32_range. rewrite Z.eqb_refl. cbn [negb]. cbv zeta.
    destruct (Z.ltb_spec (be_decode_signed (firstn 4 cov)) 2); [reflexivity|].
    destruct (Z.ltb_spec (Z.of_nat (length cov) - 4) (be_decode_signed (firstn 4 cov))); [reflexivity|lia].
  Qed.

  Lemma obad_type tn data rest : tn <> [] -> ofits tn data -> create tn = false ->
    oref_split (oencode tn data ++ rest) = RBad msg kUnknownMessageType.
  Proof. intros Hne Hf Hc. rewrite (oencode_split tn data rest Hne Hf), Hc. reflexivity. Qed.

  Lemma obad_payload tn data rest : tn <> [] -> ofits tn data -> create tn = true -> parse tn data = None ->
    oref_split (oencode tn data ++ rest) = RBad msg kParseError.
  Proof. intros Hne Hf Hc Hp. rewrite (oencode_split tn data rest Hne Hf), Hc, Hp. reflexivity. Qed.

  Lemma oencode_length tn data : length (oencode tn data) = (4 + (4 + (length tn + (1 + length data))) + 4)%nat.
  Proof. unfold oencode. rewrite !app_length, !be_encode_length. cbn [length]. lia. Qed.

  Definition ogood (f : list byte * list byte) (m : msg) : Prop :=
    fst f <> [] /\ create (fst f) = true /\ parse (fst f) (snd f) = Some m /\ ofits (fst f) (snd f).

  Lemma oref_decode_frames : forall fs ms fuel, Forall2 ogood fs ms -> (length fs < fuel)%nat ->
    oref_decode fuel (flat_map (fun f => oencode (fst f) (snd f)) fs) = (ms, None, []).
  Proof.
    intros fs ms fuel HF. revert fuel. induction HF as [|f m fs ms (Hne & Hc & Hp & Hf) _ IH]; intros fuel Hlt.
    - destruct fuel; [lia|]. reflexivity.
    - destruct fuel as [|fuel]; [lia|]. cbn [flat_map C18_OldCodec.oref_decode length] in *.
      rewrite (oencode_split (fst f) (snd f) _ Hne Hf), Hc, Hp. cbn [negb].
      rewrite IH by lia. reflexivity.
  Qed.

  (* every sequence of messages the encoder framed (type names the factory knows, payloads the
     message type parses, frames within the limit), cut into chunks in any way, decodes to exactly
     those messages; everything is consumed *)
  Theorem old_codec_roundtrip : forall fs ms chunks,
    Forall2 ogood fs ms ->
    concat chunks = flat_map (fun f => oencode (fst f) (snd f)) fs ->
    ofeed_all ocodec_init chunks = (map CMsg ms, mkD tt [] false false).
  Proof.
    intros fs ms chunks HF Hc.
    pose proof (old_codec_equals_reference chunks) as H. cbv zeta in H. rewrite H, Hc.
    rewrite (oref_decode_frames fs ms _ HF).
    - rewrite app_nil_r. reflexivity.
    - clear -HF. induction HF as [|f m fs ms _ _ IH]; cbn [flat_map length]; [lia|].
      rewrite app_length, oencode_length. lia.
  Qed.

  (* the reject classes, read off the reference: valid frames, then a head the reference calls bad *)
  Theorem old_codec_reject : forall fs ms t e chunks,
    Forall2 ogood fs ms -> oref_split t = RBad msg e ->
    concat chunks = flat_map (fun f => oencode (fst f) (snd f)) fs ++ t ->
    ofeed_all ocodec_init chunks = (map CMsg ms ++ [CErr e], mkD tt t true false).
  Proof.
    intros fs ms t e chunks HF Hbad Hc.
    pose proof (old_codec_equals_reference chunks) as H. cbv zeta in H. rewrite H, Hc. clear H Hc.
    assert (Hd : forall fuel, (length fs < fuel)%nat ->
              oref_decode fuel (flat_map (fun f => oencode (fst f) (snd f)) fs ++ t) = (ms, Some e, t)).
    { clear chunks. induction HF as [|f m fs ms (Hne & Hc & Hp & Hf) _ IH]; intros fuel Hlt.
      - destruct fuel; [lia|]. cbn [flat_map app C18_OldCodec.oref_decode]. rewrite Hbad. reflexivity.
      - destruct fuel as [|fuel]; [lia|]. cbn [flat_map C18_OldCodec.oref_decode length] in *.
        rewrite <- app_assoc, (oencode_split (fst f) (snd f) _ Hne Hf), Hc, Hp. cbn [negb].
        rewrite IH by lia. reflexivity. }
    rewrite Hd; [reflexivity|].
    rewrite app_length. clear -HF. induction HF as [|f m fs ms _ _ IH]; cbn [flat_map length]; [lia|].
    rewrite app_length, oencode_length. lia.
  Qed.
End OldCodecProofs.
