(* C19_DownProofs: the connection goes DOWN (C19_Model.cstep).  A history with a DOWN is an ordinary
   history (C19_Model.exec, about which C19_Proofs speaks) with the DOWN taken out; what the DOWN
   changes is what can be observed: nothing is sent any more, a server-owned channel is destroyed. *)
From Coq Require Import List ZArith Bool Arith Lia.
From Coq.Strings Require Import Byte.
From Muduo Require Import Base_Bytes C19_Model C19_Proofs.
Import ListNotations.
Local Open Scope Z_scope.

(* what may still happen after the DOWN *)
Definition allowed (own : bool) (l : label) : Prop :=
  match l with
  | LFetch _ _ | LRegister _ | LSend _ => own = false
  | LDone _ _ => True
  | LResponse _ _ | LRequest _ | LOther _ => False
  end.

(* what a step of the ordinary machine shows after the DOWN *)
Definition dmute (own : bool) (p : label * list event) : clabel * list event :=
  (CL (fst p),
   match fst p with
   | LDone k _ => if own then [EUseAfterFree k] else mute (snd p)
   | _ => mute (snd p)
   end).

Lemma cexec_cons c l r c'' tr :
  cexec c (l :: r) = Some (c'', tr) ->
  exists c' ev tr', cstep c l = Some (c', ev) /\ cexec c' r = Some (c'', tr') /\ tr = (l, ev) :: tr'.
Proof.
  cbn [cexec]. destruct (cstep c l) as [[c' ev]|] eqn:E1; [|discriminate].
  destruct (cexec c' r) as [[c3 tr']|] eqn:E2; [|discriminate].
  intros H; inversion H; subst. exists c', ev, tr'. auto.
Qed.

Lemma exec_cons_intro s l s' ev r s'' tr :
  step s l = Some (s', ev) -> exec s' r = Some (s'', tr) -> exec s (l :: r) = Some (s'', (l, ev) :: tr).
Proof. intros Hs He. unfold exec, step in *. cbn [exec_gen]. rewrite Hs, He. reflexivity. Qed.

Lemma exec_app_intro s l1 s1 tr1 l2 s2 tr2 :
  exec s l1 = Some (s1, tr1) -> exec s1 l2 = Some (s2, tr2) -> exec s (l1 ++ l2) = Some (s2, tr1 ++ tr2).
Proof.
  revert s tr1. induction l1 as [|l r IH]; intros s tr1 H1 H2.
  - inversion H1; subst. exact H2.
  - apply exec_cons in H1. destruct H1 as (s' & ev & tr' & Hs & He & ->).
    cbn [app]. eapply exec_cons_intro; [exact Hs|]. eapply IH; eauto.
Qed.

(* ---- while the connection is up, cstep is step ---- *)
Lemma cexec_up_phase c l1 rest c' tr :
  up c = true -> cexec c (map CL l1 ++ rest) = Some (c', tr) ->
  exists s1 tr1 tr2, exec (core c) l1 = Some (s1, tr1) /\
    cexec (mkChan s1 true (owned c)) rest = Some (c', tr2) /\ tr = wrap_trace tr1 ++ tr2.
Proof.
  revert c tr. induction l1 as [|l r IH]; intros c tr Hu H.
  - exists (core c), [], tr. split; [reflexivity|]. split; [|reflexivity].
    destruct c as [s u o]. cbn in Hu. subst u. exact H.
  - cbn [map app] in H. apply cexec_cons in H. destruct H as (c1 & ev & tr' & Hs & He & ->).
    unfold cstep in Hs. cbn [cstep_gen] in Hs. rewrite Hu in Hs. unfold lift in Hs.
    destruct (step_gen false (core c) l) as [[s' ev']|] eqn:E; [|discriminate].
    inversion Hs; subst c1 ev'. clear Hs.
    destruct (IH (mkChan s' (up c) (owned c)) tr' Hu He) as (s1 & tr1 & tr2 & H1 & H2 & ->).
    cbn [core owned] in *. exists s1, ((l, ev) :: tr1), tr2. split; [|split; [exact H2|reflexivity]].
    eapply exec_cons_intro; [exact E|exact H1].
Qed.

(* ---- after the DOWN ---- *)
Lemma mute_fetch t i c : mute [EFetch t i c] = [EFetch t i c]. Proof. reflexivity. Qed.
Lemma mute_register t i c : mute [ERegister t i c] = [ERegister t i c]. Proof. reflexivity. Qed.

Lemma down_phase c l2 c' tr2 :
  up c = false -> cexec c l2 = Some (c', tr2) ->
  up c' = false /\ owned c' = owned c /\
  exists ls2 tr2', l2 = map CL ls2 /\ Forall (allowed (owned c)) ls2 /\
    exec (core c) ls2 = Some (core c', tr2') /\ tr2 = map (dmute (owned c)) tr2'.
Proof.
  revert c tr2. induction l2 as [|l r IH]; intros c tr2 Hu H.
  - inversion H; subst. repeat split; auto. exists [], []. repeat split; auto.
  - destruct c as [s u o]. cbn [up owned core] in *. subst u.
    apply cexec_cons in H. destruct H as (c1 & ev & tr' & Hs & He & ->).
    unfold cstep in Hs. destruct l as [l0|]; cbn [cstep_gen up owned core] in Hs; [|discriminate].
    assert (forall s' ev0, step s l0 = Some (s', ev0) -> c1 = mkChan s' false o ->
              allowed o l0 -> ev = snd (dmute o (l0, ev0)) ->
              up c' = false /\ owned c' = o /\
              exists ls2 tr2', CL l0 :: r = map CL ls2 /\ Forall (allowed o) ls2 /\
                exec s ls2 = Some (core c', tr2') /\ (CL l0, ev) :: tr' = map (dmute o) tr2') as K.
    { intros s' ev0 Hst -> Hal ->.
      destruct (IH (mkChan s' false o) tr' eq_refl He) as (A & B & ls2 & tr2' & -> & Hf & Hx & ->).
      cbn [core owned] in *. repeat split; auto.
      exists (l0 :: ls2), ((l0, ev0) :: tr2'). repeat split; auto.
      eapply exec_cons_intro; eauto. }
    destruct l0 as [t d|t|t|i b|q|k m|i]; try discriminate.
    + destruct o; [discriminate|]. unfold lift in Hs. cbn [up owned] in Hs.
      destruct (step_gen false s (LFetch t d)) as [[s' ev0]|] eqn:E; [|discriminate].
      inversion Hs; subst c1 ev0. eapply K; [exact E|reflexivity|reflexivity|].
      pose proof (step_fetch _ _ _ _ _ E) as (_ & _ & ->). reflexivity.
    + destruct o; [discriminate|]. unfold lift in Hs. cbn [up owned] in Hs.
      destruct (step_gen false s (LRegister t)) as [[s' ev0]|] eqn:E; [|discriminate].
      inversion Hs; subst c1 ev0. eapply K; [exact E|reflexivity|reflexivity|].
      pose proof (step_register _ _ _ _ E) as (i & d & _ & _ & ->). reflexivity.
    + destruct o; [discriminate|]. unfold quiet in Hs. cbn [up owned] in Hs.
      destruct (step_gen false s (LSend t)) as [[s' ev0]|] eqn:E; [|discriminate].
      inversion Hs; subst c1 ev. eapply K; [exact E|reflexivity|reflexivity|].
      pose proof (step_send _ _ _ _ E) as (i & d & _ & _ & ->). reflexivity.
    + unfold quiet in Hs. cbn [up owned] in Hs.
      destruct (step_gen false s (LDone k m)) as [[s' ev0]|] eqn:E; [|discriminate].
      inversion Hs; subst c1 ev. eapply K; [exact E|reflexivity|exact I|].
      pose proof (step_done _ _ _ _ _ E) as (i & _ & _ & ->). cbn [dmute fst snd]. destruct o; reflexivity.
Qed.

(* a done callback does not look at outstandings_: destroying them does not change what the steps do *)
Lemma step_drop_outs s l s' ev :
  (forall t c, l <> LFetch t c) -> (forall t, l <> LRegister t) -> (forall t, l <> LSend t) ->
  (forall i b, l <> LResponse i b) ->
  step (drop_outs s) l = Some (s', ev) -> exists s0, step s l = Some (s0, ev) /\ s' = drop_outs s0.
Proof.
  intros N1 N2 N3 N4. destruct l as [t d|t|t|i b|q|k m|i]; intros H.
  - exfalso. apply (N1 t d). reflexivity.
  - exfalso. apply (N2 t). reflexivity.
  - exfalso. apply (N3 t). reflexivity.
  - exfalso. apply (N4 i b). reflexivity.
  - apply step_request in H. cbn [drop_outs services next_id threads next_tok pending] in H.
    unfold step. cbn [step_gen]. destruct H as [(e & Hr & -> & ->)|(p & Hr & -> & ->)]; rewrite Hr; eexists; split; reflexivity.
  - apply step_done in H. cbn [drop_outs services next_id threads next_tok pending] in H.
    destruct H as (i & Hl & -> & ->). unfold step. cbn [step_gen]. rewrite Hl. eexists. split; reflexivity.
  - apply step_other in H. destruct H as (-> & ->). eexists. split; reflexivity.
Qed.

Lemma exec_drop_outs s ls s' tr :
  Forall (allowed true) ls -> exec (drop_outs s) ls = Some (s', tr) ->
  exists s0, exec s ls = Some (s0, tr) /\ s' = drop_outs s0.
Proof.
  revert s tr. induction ls as [|l r IH]; intros s tr Hf H.
  - inversion H; subst. exists s. split; reflexivity.
  - inversion Hf as [|? ? Ha Hr]; subst. apply exec_cons in H. destruct H as (s1 & ev & tr' & Hs & He & ->).
    assert (exists s0, step s l = Some (s0, ev) /\ s1 = drop_outs s0) as (s0 & Hs0 & ->).
    { apply step_drop_outs; [| | | |exact Hs]; intros; intros ->; cbn in Ha; try discriminate; contradiction. }
    destruct (IH s0 tr' Hr He) as (s2 & He2 & ->). exists s2. split; [|reflexivity].
    eapply exec_cons_intro; eauto.
Qed.

(* ---- the structure of a history with a DOWN ---- *)
Lemma down_structure own svcs l1 l2 c' tr :
  cexec (cinit own svcs) (map CL l1 ++ CDown :: l2) = Some (c', tr) ->
  exists ls2 s1 tr1 s2 tr2',
    l2 = map CL ls2 /\ Forall (allowed own) ls2 /\
    exec (init svcs) l1 = Some (s1, tr1) /\
    exec (init svcs) (l1 ++ ls2) = Some (s2, tr1 ++ tr2') /\
    core c' = (if own then drop_outs s2 else s2) /\ up c' = false /\ owned c' = own /\
    tr = wrap_trace tr1 ++ (CDown, if own then dtor_events (outs s1) else []) :: map (dmute own) tr2'.
Proof.
  intros H. apply cexec_up_phase in H; [|reflexivity]. destruct H as (s1 & tr1 & tr2 & H1 & H2 & ->).
  cbn [cinit core owned] in *. apply cexec_cons in H2. destruct H2 as (c1 & ev & tr' & Hs & He & ->).
  unfold cstep in Hs. cbn [cstep_gen up owned core] in Hs.
  destruct own.
  - inversion Hs; subst c1 ev. clear Hs.
    destruct (down_phase (mkChan (drop_outs s1) false true) _ _ _ eq_refl He) as (A & B & ls2 & tr2' & -> & Hf & Hx & ->). cbn [core owned] in *.
    destruct (exec_drop_outs _ _ _ _ Hf Hx) as (s2 & Hx2 & Hc).
    exists ls2, s1, tr1, s2, tr2'. repeat split; auto. eapply exec_app_intro; eauto.
  - inversion Hs; subst c1 ev. clear Hs.
    destruct (down_phase (mkChan s1 false false) _ _ _ eq_refl He) as (A & B & ls2 & tr2' & -> & Hf & Hx & ->). cbn [core owned] in *.
    exists ls2, s1, tr1, (core c'), tr2'. repeat split; auto. eapply exec_app_intro; eauto.
Qed.

(* ---- nothing is sent after the DOWN ---- *)
Definition after_down_event (own : bool) (e : event) : Prop :=
  match e with
  | EFetch _ _ _ | ERegister _ _ _ => own = false
  | EUseAfterFree _ => own = true
  | _ => False
  end.

Lemma dmute_events own s ls s' tr :
  Forall (allowed own) ls -> exec s ls = Some (s', tr) ->
  forall l ev e, In (l, ev) (map (dmute own) tr) -> In e ev -> after_down_event own e.
Proof.
  revert s tr. induction ls as [|l0 r IH]; intros s tr Hf H l ev e Hin He.
  - inversion H; subst. destruct Hin.
  - inversion Hf as [|? ? Ha Hr]; subst. apply exec_cons in H. destruct H as (s1 & ev0 & tr' & Hs & Hx & ->).
    cbn [map] in Hin. destruct Hin as [E|Hin]; [|eapply IH; eauto].
    unfold dmute in E. cbn [fst snd] in E. inversion E; subst l ev. clear E.
    destruct l0 as [t d|t|t|i b|q|k m|i]; cbn in Ha; try contradiction.
    + apply step_fetch in Hs. destruct Hs as (_ & _ & ->). destruct He as [<-|[]]. exact Ha.
    + apply step_register in Hs. destruct Hs as (i & d & _ & _ & ->). destruct He as [<-|[]]. exact Ha.
    + apply step_send in Hs. destruct Hs as (i & d & _ & _ & ->). destruct He.
    + apply step_done in Hs. destruct Hs as (i & _ & _ & ->). destruct own; [destruct He as [<-|[]]; reflexivity|destruct He].
Qed.

Lemma nothing_sent_after_down own svcs l1 l2 c' tr :
  cexec (cinit own svcs) (map CL l1 ++ CDown :: l2) = Some (c', tr) ->
  forall l ev e, In (l, ev) (skipn (S (length l1)) tr) -> In e ev -> after_down_event own e.
Proof.
  intros H. destruct (down_structure _ _ _ _ _ _ H) as (ls2 & s1 & tr1 & s2 & tr2' & -> & Hf & H1 & H12 & _ & _ & _ & ->).
  assert (length (wrap_trace tr1) = length l1) as Hlen.
  { unfold wrap_trace. rewrite map_length. pose proof (exec_labels _ _ _ _ H1) as Hl. 
    rewrite <- Hl. rewrite map_length. reflexivity. }
  assert (skipn (S (length l1)) (wrap_trace tr1 ++ (CDown, if own then dtor_events (outs s1) else []) :: map (dmute own) tr2')
          = map (dmute own) tr2') as ->.
  { rewrite <- Hlen. clear. induction (wrap_trace tr1) as [|x r IH]; [reflexivity|exact IH]. }
  apply exec_app in H12. destruct H12 as (s1' & tr1' & tr2'' & H1' & H2 & Ht).
  rewrite H1 in H1'. inversion H1'; subst s1' tr1'. apply app_inv_head in Ht. subst tr2''.
  eapply dmute_events; eauto.
Qed.

(* ---- counts over the whole history ---- *)
Lemma cevents_app a b : cevents (a ++ b) = cevents a ++ cevents b.
Proof. unfold cevents. apply flat_map_app. Qed.

Lemma cevents_wrap tr : cevents (wrap_trace tr) = events tr.
Proof. unfold cevents, wrap_trace, events. induction tr as [|[l ev] r IH]; cbn; [reflexivity|]. rewrite IH. reflexivity. Qed.

Lemma run_tags_after_down own s ls s' tr :
  Forall (allowed own) ls -> exec s ls = Some (s', tr) ->
  run_tags (cevents (map (dmute own) tr)) = [] /\ del_tags (cevents (map (dmute own) tr)) = [].
Proof.
  intros Hf H.
  assert (forall e, In e (cevents (map (dmute own) tr)) -> after_down_event own e) as Hall.
  { intros e He. unfold cevents in He. apply in_flat_map in He. destruct He as ([l ev] & Hin & He).
    eapply dmute_events; eauto. }
  revert Hall. generalize (cevents (map (dmute own) tr)). intros evs. induction evs as [|e r IH]; intros Hall; [split; reflexivity|].
  assert (after_down_event own e) as He by (apply Hall; left; reflexivity).
  destruct (IH (fun x Hx => Hall x (or_intror Hx))) as [A B].
  unfold run_tags, del_tags in *. cbn [flat_map]. rewrite A, B.
  destruct e; cbn in He; try contradiction; split; reflexivity.
Qed.

Lemma cnt_dtor_run c m : cnt c (run_tags (dtor_events m)) = 0%nat.
Proof.
  induction m as [|[j d] r IH]; [reflexivity|].
  unfold dtor_events. cbn [flat_map]. fold (dtor_events r). rewrite run_tags_app, cnt_app, IH.
  cbn [snd]. destruct (c_resp d), (c_done d); reflexivity.
Qed.

Lemma cnt_dtor_del c m : (cnt c (del_tags (dtor_events m)) <= cnt c (tags_outs m))%nat.
Proof.
  induction m as [|[j d] r IH]; [cbn; lia|].
  unfold dtor_events. cbn [flat_map]. fold (dtor_events r). rewrite del_tags_app, cnt_app.
  change (tags_outs ((j, d) :: r)) with ([c_tag d] ++ tags_outs r). rewrite cnt_app. cbn [snd].
  assert (cnt c (del_tags ((if c_resp d then [EDelete (c_tag d)] else []) ++ (if c_done d then [EDrop (c_tag d)] else []))) <= cnt c [c_tag d])%nat.
  { destruct (c_resp d), (c_done d); cbn; try lia; destruct (Nat.eq_dec (c_tag d) c); lia. }
  lia.
Qed.

(* over a whole history with a DOWN: no closure runs twice, no response object is deleted twice
   (the destructor's deletes included); a call still outstanding when a server-owned channel is
   destroyed never has its closure run *)
Lemma down_at_most_once own svcs l1 l2 c' tr tg :
  cexec (cinit own svcs) (map CL l1 ++ CDown :: l2) = Some (c', tr) ->
  NoDup (fetch_tags l1) ->
  (count_occ Nat.eq_dec (run_tags (cevents tr)) tg <= 1)%nat /\
  (count_occ Nat.eq_dec (del_tags (cevents tr)) tg <= 1)%nat /\
  (own = true -> forall s1 tr1 i d, exec (init svcs) l1 = Some (s1, tr1) -> lookup i (outs s1) = Some d -> c_tag d = tg ->
     count_occ Nat.eq_dec (run_tags (cevents tr)) tg = 0%nat).
Proof.
  intros H Hnd. destruct (down_structure _ _ _ _ _ _ H) as (ls2 & s1 & tr1 & s2 & tr2' & -> & Hf & H1 & H12 & _ & _ & _ & ->).
  apply exec_app in H12. destruct H12 as (s1' & tr1' & tr2'' & H1' & H2 & Ht).
  rewrite H1 in H1'. inversion H1'; subst s1' tr1'. apply app_inv_head in Ht. subst tr2''.
  destruct (run_tags_after_down own _ _ _ _ Hf H2) as [Hr0 Hd0].
  change ((CDown, if own then dtor_events (outs s1) else []) :: map (dmute own) tr2')
    with ([(CDown, if own then dtor_events (outs s1) else [])] ++ map (dmute own) tr2').
  rewrite !cevents_app, cevents_wrap, !run_tags_app, !del_tags_app, Hr0, Hd0, !app_nil_r.
  unfold cevents at 1 2 3. cbn [flat_map snd]. rewrite !app_nil_r.
  pose proof (exec_budget tg _ _ _ _ H1) as Hb. pose proof (exec_budget_del tg _ _ _ _ H1) as Hbd.
  pose proof (proj1 (NoDup_count_occ Nat.eq_dec (fetch_tags l1)) Hnd tg) as Hc.
  fold (cnt tg (fetch_tags l1)) in Hc.
  change (cnt tg (live (init svcs))) with 0%nat in Hb, Hbd.
  fold (cnt tg (run_tags (events tr1) ++ run_tags (if own then dtor_events (outs s1) else []))).
  fold (cnt tg (del_tags (events tr1) ++ del_tags (if own then dtor_events (outs s1) else []))).
  rewrite !cnt_app.
  assert (cnt tg (run_tags (if own then dtor_events (outs s1) else [])) = 0)%nat as Hz
    by (destruct own; [apply cnt_dtor_run|reflexivity]).
  assert (cnt tg (del_tags (if own then dtor_events (outs s1) else [])) <= cnt tg (live s1))%nat as Hz2.
  { destruct own; [|cbn; lia]. pose proof (cnt_dtor_del tg (outs s1)). unfold live. rewrite cnt_app. lia. }
  split; [lia|]. split; [lia|].
  intros -> s1' tr1' i d H1'' Hl Htg. rewrite H1 in H1''. inversion H1''; subst s1' tr1'.
  assert (1 <= cnt tg (live s1))%nat.
  { unfold live. rewrite cnt_app. clear - Hl Htg. induction (outs s1) as [|[j e] r IH]; cbn [lookup] in Hl; [discriminate|].
    change (tags_outs ((j, e) :: r)) with ([c_tag e] ++ tags_outs r). rewrite cnt_app.
    destruct (i =? j).
    - inversion Hl; subst e. cbn. destruct (Nat.eq_dec (c_tag d) tg); [lia|congruence].
    - apply IH in Hl. lia. }
  lia.
Qed.

(* ---- the done callback after the DOWN ---- *)
Lemma use_after_free_needs own svcs l1 l2 c' tr k :
  cexec (cinit own svcs) (map CL l1 ++ CDown :: l2) = Some (c', tr) ->
  In (EUseAfterFree k) (cevents tr) ->
  own = true /\ exists m, In (CL (LDone k m)) l2.
Proof.
  intros H Hin. destruct (down_structure _ _ _ _ _ _ H) as (ls2 & s1 & tr1 & s2 & tr2' & -> & Hf & H1 & H12 & _ & _ & _ & ->).
  apply exec_app in H12. destruct H12 as (s1' & tr1' & tr2'' & H1' & H2 & Ht).
  rewrite H1 in H1'. inversion H1'; subst s1' tr1'. apply app_inv_head in Ht. subst tr2''.
  rewrite cevents_app, cevents_wrap in Hin. apply in_app_or in Hin. destruct Hin as [Hin|Hin].
  - exfalso. unfold events in Hin. apply in_flat_map in Hin. destruct Hin as ([l ev] & Hle & Hev). cbn [snd] in Hev.
    destruct (exec_in_step _ _ _ _ _ _ H1 Hle) as (s0 & s0' & Hs & _).
    destruct l as [t d|t|t|i b|q|k0 m|i].
    + apply step_fetch in Hs. destruct Hs as (_ & _ & ->). destruct Hev as [E|[]]; discriminate.
    + apply step_register in Hs. destruct Hs as (i & d & _ & _ & ->). destruct Hev as [E|[]]; discriminate.
    + apply step_send in Hs. destruct Hs as (i & d & _ & _ & ->). destruct Hev as [E|[]]; discriminate.
    + apply step_response in Hs. destruct Hs as (_ & [(d & _ & _ & ->)|(_ & _ & ->)]); [|destruct Hev].
      unfold complete in Hev. destruct (c_resp d), (c_done d); cbn in Hev;
        repeat (destruct Hev as [Hev|Hev]; try discriminate); contradiction.
    + apply step_request in Hs. destruct Hs as [(e & _ & _ & ->)|(q0 & _ & _ & ->)]; destruct Hev as [E|[]]; discriminate.
    + apply step_done in Hs. destruct Hs as (i & _ & _ & ->). destruct Hev as [E|[]]; discriminate.
    + apply step_other in Hs. destruct Hs as (_ & ->). destruct Hev.
  - unfold cevents in Hin. cbn [flat_map snd] in Hin. apply in_app_or in Hin. destruct Hin as [Hin|Hin].
    + exfalso. destruct own; [|destruct Hin]. unfold dtor_events in Hin. apply in_flat_map in Hin.
      destruct Hin as ([j d] & _ & Hin). cbn [snd] in Hin. destruct (c_resp d), (c_done d); cbn in Hin;
        repeat (destruct Hin as [Hin|Hin]; try discriminate); contradiction.
    + apply in_flat_map in Hin. destruct Hin as ([l ev] & Hle & Hev). cbn [snd] in Hev.
      apply in_map_iff in Hle. destruct Hle as ([l0 ev0] & E & Hle0). unfold dmute in E. cbn [fst snd] in E.
      inversion E; subst l ev. clear E.
      pose proof (exec_labels _ _ _ _ H2) as Hlab.
      assert (In l0 ls2) as Hl0 by (rewrite <- Hlab; apply in_map_iff; exists (l0, ev0); auto).
      destruct (exec_in_step _ _ _ _ _ _ H2 Hle0) as (s0 & s0' & Hs & _).
      pose proof (proj1 (Forall_forall _ _) Hf _ Hl0) as Ha.
      destruct l0 as [t d|t|t|i b|q|k0 m|i]; cbn in Ha; try contradiction.
      * apply step_fetch in Hs. destruct Hs as (_ & _ & ->). destruct Hev as [E|[]]; discriminate.
      * apply step_register in Hs. destruct Hs as (i & d & _ & _ & ->). destruct Hev as [E|[]]; discriminate.
      * apply step_send in Hs. destruct Hs as (i & d & _ & _ & ->). destruct Hev.
      * apply step_done in Hs. destruct Hs as (i & _ & _ & ->). destruct own; [|destruct Hev].
        destruct Hev as [E|[]]. inversion E; subst k0. split; [reflexivity|]. exists m. apply in_map. exact Hl0.
Qed.

Lemma done_callback_safe_partial own svcs l1 l2 c' tr :
  cexec (cinit own svcs) (map CL l1 ++ CDown :: l2) = Some (c', tr) ->
  own = false \/ (forall k m, ~ In (CL (LDone k m)) l2) ->
  forall k, ~ In (EUseAfterFree k) (cevents tr).
Proof.
  intros H Hor k Hin. destruct (use_after_free_needs _ _ _ _ _ _ _ H Hin) as (Ho & m & Hm).
  destruct Hor as [->|Hn]; [discriminate|]. eapply Hn; eauto.
Qed.

(* without a DOWN the life-cycle machine is the ordinary one *)
Lemma no_down_is_exec own svcs ls c' tr :
  cexec (cinit own svcs) (map CL ls) = Some (c', tr) ->
  exists s' tr0, exec (init svcs) ls = Some (s', tr0) /\ c' = mkChan s' true own /\ tr = wrap_trace tr0.
Proof.
  intros H. rewrite <- (app_nil_r (map CL ls)) in H. apply cexec_up_phase in H; [|reflexivity].
  destruct H as (s1 & tr1 & tr2 & H1 & H2 & ->). cbn in H2. inversion H2; subst.
  exists s1, tr1. rewrite app_nil_r. auto.
Qed.

Lemma done_callback_safe_both own svcs l1 l2 c' tr :
  cexec (cinit own svcs) (map CL l1 ++ CDown :: l2) = Some (c', tr) ->
  (own = false \/ (forall k m, ~ In (CL (LDone k m)) l2) -> forall k, ~ In (EUseAfterFree k) (cevents tr)) /\
  (forall k, In (EUseAfterFree k) (cevents tr) -> own = true /\ exists m, In (CL (LDone k m)) l2).
Proof.
  intros H. split; [exact (done_callback_safe_partial _ _ _ _ _ _ H)|intros k; exact (use_after_free_needs _ _ _ _ _ _ k H)].
Qed.

(* a call still outstanding when the connection goes DOWN: its closure never runs, before or after;
   its response object is deleted exactly once if the channel is destroyed with the connection
   (~RpcChannel), and not at all while a user-owned channel lives on *)
Lemma inflight_at_down own svcs l1 l2 c' tr s1 tr1 i d :
  cexec (cinit own svcs) (map CL l1 ++ CDown :: l2) = Some (c', tr) ->
  NoDup (fetch_tags l1) ->
  exec (init svcs) l1 = Some (s1, tr1) -> lookup i (outs s1) = Some d ->
  count_occ Nat.eq_dec (run_tags (cevents tr)) (c_tag d) = 0%nat /\
  count_occ Nat.eq_dec (del_tags (cevents tr)) (c_tag d) = (if own then 1 else 0)%nat.
Proof.
  intros H Hnd H1x Hl. destruct (down_structure _ _ _ _ _ _ H) as (ls2 & s1' & tr1' & s2 & tr2' & -> & Hf & H1 & H12 & _ & _ & _ & ->).
  rewrite H1x in H1. inversion H1; subst s1' tr1'. clear H1.
  apply exec_app in H12. destruct H12 as (s1' & tr1' & tr2'' & H1' & H2 & Ht).
  rewrite H1x in H1'. inversion H1'; subst s1' tr1'. apply app_inv_head in Ht. subst tr2''.
  destruct (run_tags_after_down own _ _ _ _ Hf H2) as [Hr0 Hd0].
  change ((CDown, if own then dtor_events (outs s1) else []) :: map (dmute own) tr2')
    with ([(CDown, if own then dtor_events (outs s1) else [])] ++ map (dmute own) tr2').
  rewrite !cevents_app, cevents_wrap, !run_tags_app, !del_tags_app, Hr0, Hd0, !app_nil_r.
  unfold cevents at 1 2. cbn [flat_map snd]. rewrite !app_nil_r.
  set (tg := c_tag d).
  pose proof (exec_budget tg _ _ _ _ H1x) as Hb. pose proof (exec_budget_del tg _ _ _ _ H1x) as Hbd.
  pose proof (proj1 (NoDup_count_occ Nat.eq_dec (fetch_tags l1)) Hnd tg) as Hc. fold (cnt tg (fetch_tags l1)) in Hc.
  change (cnt tg (live (init svcs))) with 0%nat in Hb, Hbd.
  pose proof (cnt_live_pos s1 d (or_introl (ex_intro (fun i0 => lookup i0 (outs s1) = Some d) i Hl))) as Hlive. fold tg in Hlive.
  fold (cnt tg (run_tags (events tr1) ++ run_tags (if own then dtor_events (outs s1) else []))).
  fold (cnt tg (del_tags (events tr1) ++ del_tags (if own then dtor_events (outs s1) else []))).
  rewrite !cnt_app.
  assert (cnt tg (run_tags (if own then dtor_events (outs s1) else [])) = 0)%nat as Hz
    by (destruct own; [apply cnt_dtor_run|reflexivity]).
  split; [lia|].
  destruct own; [|cbn; lia].
  pose proof (cnt_dtor_del tg (outs s1)) as Hle. unfold live in Hb, Hbd, Hlive. rewrite cnt_app in *.
  assert (1 <= cnt tg (del_tags (dtor_events (outs s1))))%nat; [|lia].
  pose proof (proj1 (cinv_exec _ _ _ _ (cinv_init svcs) H1x) _ _ Hl) as Hr. unfold in_contract in Hr.
  clear - Hl Hr. subst tg. induction (outs s1) as [|[j e] r IH]; cbn [lookup] in Hl; [discriminate|].
  unfold dtor_events. cbn [flat_map]. fold (dtor_events r). rewrite del_tags_app, cnt_app. cbn [snd].
  destruct (i =? j).
  - inversion Hl; subst e. rewrite Hr. unfold cnt. destruct (c_done d); cbn; destruct (Nat.eq_dec (c_tag d) (c_tag d)); try congruence; lia.
  - apply IH in Hl. lia.
Qed.

(* a history in which the connection goes DOWN has the shape the theorems above speak about *)
Lemma split_at_down (cls : list clabel) : In CDown cls -> exists l1 l2, cls = map CL l1 ++ CDown :: l2.
Proof.
  induction cls as [|x r IH]; intros Hin; [destruct Hin|].
  destruct x as [l|].
  - destruct Hin as [E|Hin]; [discriminate|]. destruct (IH Hin) as (l1 & l2 & ->). exists (l :: l1), l2. reflexivity.
  - exists [], r. reflexivity.
Qed.
