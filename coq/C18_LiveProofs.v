(* C18_LiveProofs: the codec WITHOUT an abandoned flag (what ProtobufCodecLite really is: the
   while loop of onMessage runs on every delivery), pinned event by event on EVERY stream, streams
   with an error included.

     live_all l chunks          (C18_EncProofs)  the loop run on every delivery, list level
     deliver_all c chunks       (C18_EncModel)   the same over the C10 Buffer model + the error
                                                 callback's shutdown()
     codec_feed_all .. chunks   (C18_Model)      the decoder of the property text (abandoned flag)
     ref_decode                 (C18_Model)      the declarative reference

   Result (live_events / decoder_over_buffer_full): with (ms, er, rest) = ref_decode of the whole
   stream, the events of all deliveries, concatenated, are
       map CMsg ms                                   if er = None
       map CMsg ms ++ CErr x :: repeat (CErr x) k    if er = Some x
   where k = late_reads [] chunks = the number of deliveries that arrive when the stream received
   BEFORE them already contains the error (declarative: a count over prefixes of the stream by
   the reference decoder); the unconsumed bytes are rest (nothing is consumed from the bad frame
   on); no CFault; connected iff er = None; shutdown() took effect once iff er <> None. *)
From Coq Require Import List ZArith Lia Bool Arith NArith.
From Coq.Strings Require Import Byte.
From Muduo Require Import Base_Bytes Gen_Consts C10_Model C10_Proofs C18_Model C18_StreamProofs C18_CodecProofs C18_Proofs C18_EncModel C18_EncProofs.
Import ListNotations.

Lemma concat_repeat_single {A} (x : A) n : concat (repeat [x] n) = repeat x n.
Proof. induction n as [|n IH]; [reflexivity|]. cbn [repeat concat app]. rewrite IH. reflexivity. Qed.

Lemma repeat_snoc {A} (x : A) n : repeat x n ++ [x] = x :: repeat x n.
Proof. induction n as [|n IH]; [reflexivity|]. cbn [repeat app]. rewrite IH. reflexivity. Qed.

Section Live.
  Variable msg : Type.
  Variable parse : list byte -> option msg.
  Variable tag : list byte.

  Notation cstepL := (cstep msg parse tag).
  Notation cfeed := (codec_feed msg parse tag).
  Notation cfeed_all := (codec_feed_all msg parse tag).
  Notation live := (live_feed msg parse tag).
  Notation liveall := (live_all msg parse tag).
  Notation consistentL := (consistent msg parse tag).

  (* the error (if any) the reference decoder finds in the byte string s *)
  Definition ref_err (s : list byte) : option err :=
    snd (fst (ref_decode msg parse tag (S (length s)) s)).

  (* deliveries that arrive when the stream received before them (pre, then the earlier chunks)
     already contains an error *)
  Fixpoint late_reads (pre : list byte) (chunks : list (list byte)) : nat :=
    match chunks with
    | [] => 0
    | c :: cs => (match ref_err pre with Some _ => 1 | None => 0 end) + late_reads (pre ++ c) cs
    end.

  (* the same count on the abandoned-flag decoder: chunks fed while it is already abandoned *)
  Fixpoint dead (d : dstate unit) (chunks : list (list byte)) : nat :=
    match chunks with
    | [] => 0
    | c :: cs => (if d_abandoned d then 1 else 0) + dead (snd (cfeed d c)) cs
    end.

  Lemma dead_abandoned : forall cs d, d_abandoned d = true -> dead d cs = length cs.
  Proof.
    induction cs as [|c cs IH]; intros d Hab; cbn [dead length]; [reflexivity|].
    rewrite Hab. rewrite IH; [reflexivity|].
    unfold codec_feed, feed. rewrite Hab. reflexivity.
  Qed.

  (* phase 2: the loop has stopped with [x] on l: every later delivery reports x, consumes nothing *)
  Lemma live_all_stopped : forall chunks l x, cstepL tt l = SStop [x] ->
    liveall l chunks = (repeat [x] (length chunks), l ++ concat chunks).
  Proof.
    induction chunks as [|c cs IH]; intros l x Hx; cbn [live_all length repeat concat].
    - rewrite app_nil_r. reflexivity.
    - rewrite (live_after_stop msg parse tag l [x] c Hx).
      rewrite (IH (l ++ c) x (cstep_stop_mono msg parse tag tt l [x] c Hx)).
      rewrite <- app_assoc. reflexivity.
  Qed.

  (* phase 1 + 2, against the abandoned-flag decoder from a live state *)
  Lemma live_all_exact : forall chunks l d, consistentL l d -> d_abandoned d = false ->
    let '(es, lf) := liveall l chunks in
    let '(evs, df) := cfeed_all d chunks in
    lf = d_buf df /\ d_oof df = false /\
    (d_abandoned df = false -> concat es = evs /\ dead d chunks = 0) /\
    (d_abandoned df = true ->
       exists pre x, evs = pre ++ [x] /\ concat es = evs ++ repeat x (dead d chunks) /\
                     exists l0 c0, d_buf df = l0 ++ c0 /\ cstepL tt l0 = SStop [x]).
  Proof.
    induction chunks as [|c cs IH]; intros l d HC Hab; cbn [live_all codec_feed_all feed_all dead].
    - destruct HC as (Hb & Ho & _). split; [symmetry; exact Hb|]. split; [exact Ho|]. split.
      + intros _. split; reflexivity.
      + intros H. rewrite Hab in H. discriminate.
    - pose proof (live_vs_feed_step msg parse tag l d c HC) as HS.
      rewrite Hab in HS |- *.
      destruct (live l c) as [e1 l1].
      unfold codec_feed_all in *. change (feed cstepL d c) with (cfeed d c).
      destruct (cfeed d c) as [e2 d2] eqn:EF. cbn [snd].
      destruct HS as (HC2 & -> & Hstop).
      destruct (d_abandoned d2) eqn:Ea2.
      + (* the error occurs in this delivery *)
        destruct (Hstop eq_refl) as (x & Hx & _).
        assert (Hpre : exists pre, e2 = pre ++ [x]).
        { unfold codec_feed, feed in EF. destruct HC as (Hb & Ho & _). rewrite Hab, Ho in EF. cbn [orb] in EF.
          pose proof (run_final msg parse tag (S (length (d_buf d ++ c))) (d_buf d ++ c) (Nat.lt_succ_diag_r _)) as HF.
          destruct (d_st d). rewrite EF in HF. cbn [fst snd] in HF. rewrite Ea2 in HF.
          destruct HF as (_ & y & Hy & pre & ->). exists pre.
          destruct HC2 as (Hb2 & _). rewrite Hb2, Hx in Hy. injection Hy as <-. reflexivity. }
        destruct Hpre as (pre & ->).
        rewrite (live_all_stopped cs l1 x Hx).
        pose proof (feed_all_dead msg parse tag cs d2 Ea2) as HD. unfold codec_feed_all in HD. rewrite HD.
        destruct HC2 as (Hb2 & Ho2 & _). cbn [d_buf d_oof d_abandoned].
        split; [rewrite Hb2; reflexivity|]. split; [exact Ho2|]. split; [intros H; discriminate H|].
        intros _. exists pre, x. rewrite app_nil_r. split; [reflexivity|].
        cbn [concat]. rewrite concat_repeat_single, (dead_abandoned cs d2 Ea2). cbn [plus].
        split; [reflexivity|]. exists l1, (concat cs). rewrite Hb2. split; [reflexivity|exact Hx].
      + specialize (IH l1 d2 HC2 Ea2).
        destruct (liveall l1 cs) as [es lf].
        destruct (feed_all cstepL d2 cs) as [evs df].
        destruct IH as (Hlf & Hoo & Hlive & Hdead). split; [exact Hlf|]. split; [exact Hoo|]. cbn [plus concat].
        split.
        * intros Hf. destruct (Hlive Hf) as [-> ->]. split; reflexivity.
        * intros Hf. destruct (Hdead Hf) as (pre & x & -> & -> & Hl0).
          exists (e2 ++ pre), x. rewrite !app_assoc. repeat split; try reflexivity. exact Hl0.
  Qed.

  (* the abandoned-flag decoder is the reference on every prefix of the stream *)
  Lemma abandoned_is_ref_err chunks :
    d_abandoned (snd (cfeed_all codec_init chunks)) =
    match ref_err (concat chunks) with Some _ => true | None => false end.
  Proof.
    pose proof (proj1 equals_reference msg parse tag chunks) as H. cbv zeta in H. rewrite H.
    unfold ref_err. destruct (ref_decode msg parse tag _ _) as [[ms e] rest]. reflexivity.
  Qed.

  Lemma feed_all_snoc cs c d :
    snd (cfeed_all d (cs ++ [c])) = snd (cfeed (snd (cfeed_all d cs)) c).
  Proof.
    revert d. induction cs as [|a cs IH]; intros d; cbn [app codec_feed_all feed_all].
    - unfold codec_feed. cbn [snd]. destruct (feed cstepL d c) as [e1 d1]. reflexivity.
    - unfold codec_feed_all in *. destruct (feed cstepL d a) as [e1 d1].
      specialize (IH d1). destruct (feed_all cstepL d1 (cs ++ [c])) as [e2 d2].
      destruct (feed_all cstepL d1 cs) as [e3 d3]. exact IH.
  Qed.

  Lemma dead_is_late_reads : forall chunks pcs,
    dead (snd (cfeed_all codec_init pcs)) chunks = late_reads (concat pcs) chunks.
  Proof.
    induction chunks as [|c cs IH]; intros pcs; cbn [dead late_reads]; [reflexivity|].
    rewrite abandoned_is_ref_err. rewrite <- feed_all_snoc, (IH (pcs ++ [c])).
    rewrite concat_app. cbn [concat]. rewrite app_nil_r.
    destruct (ref_err (concat pcs)); reflexivity.
  Qed.

  Lemma late_reads_le : forall chunks pre, late_reads pre chunks <= length chunks.
  Proof.
    induction chunks as [|c cs IH]; intros pre; cbn [late_reads length]; [lia|].
    specialize (IH (pre ++ c)). destruct (ref_err pre); lia.
  Qed.

  (* ---- the list-level live codec on every stream -------------------------------------------- *)
  Theorem live_events : forall chunks,
    let s := concat chunks in
    let '(ms, er, rest) := ref_decode msg parse tag (S (length s)) s in
    let '(es, lf) := liveall [] chunks in
    length es = length chunks /\ lf = rest /\
    concat es = map CMsg ms ++
                match er with Some x => CErr x :: repeat (CErr x) (late_reads [] chunks) | None => [] end.
  Proof.
    intros chunks. cbv zeta.
    pose proof (live_all_exact chunks [] codec_init (consistent_init msg parse tag) eq_refl) as H.
    pose proof (live_all_vs_feed_all msg parse tag chunks [] codec_init (consistent_init msg parse tag)) as HL.
    pose proof (proj1 equals_reference msg parse tag chunks) as HR. cbv zeta in HR.
    pose proof (dead_is_late_reads chunks []) as HD. cbn [codec_feed_all feed_all snd concat] in HD.
    destruct (ref_decode msg parse tag (S (length (concat chunks))) (concat chunks)) as [[ms er] rest].
    destruct (liveall [] chunks) as [es lf].
    destruct (cfeed_all codec_init chunks) as [evs df].
    destruct HL as (_ & Hlen & _). injection HR as -> ->.
    destruct H as (Hlf & _ & Hlive & Hdead). cbn [d_buf d_abandoned] in *.
    split; [exact Hlen|]. split; [exact Hlf|].
    destruct er as [x|].
    - destruct (Hdead eq_refl) as (pre & y & Hev & Hc & _).
      apply app_inj_tail in Hev as [_ <-]. rewrite Hc, HD, <- app_assoc. reflexivity.
    - destruct (Hlive eq_refl) as [Hc _]. exact Hc.
  Qed.

  Lemma any_err_concat (es : list (list (cevent msg))) :
    any_err msg es = existsb (is_err msg) (concat es).
  Proof.
    unfold any_err. induction es as [|e es IH]; [reflexivity|].
    cbn [existsb concat]. rewrite existsb_app, IH. reflexivity.
  Qed.

  Lemma no_err_in_msgs' (ms : list msg) : existsb (is_err msg) (map CMsg ms) = false.
  Proof. induction ms as [|m ms IH]; [reflexivity|exact IH]. Qed.

  (* ---- the Buffer-level decoder on a connection, every stream -------------------------------- *)
  Theorem decoder_over_buffer_full : forall (chunks : list (list byte)) (n0 : nat),
    let s := concat chunks in
    let '(ms, er, rest) := ref_decode msg parse tag (S (length s)) s in
    exists evss c', deliver_all msg parse tag (conn0 n0) chunks = Ok (evss, c') /\
      length evss = length chunks /\
      concat evss = map CMsg ms ++
                    match er with Some x => CErr x :: repeat (CErr x) (late_reads [] chunks) | None => [] end /\
      ~ In CFault (concat evss) /\
      readable (c_in c') = rest /\
      c_connected c' = (match er with Some _ => false | None => true end) /\
      c_shutdowns c' = (match er with Some _ => 1 | None => 0 end).
  Proof.
    intros chunks n0. cbv zeta.
    pose proof (live_events chunks) as HL. cbv zeta in HL.
    destruct (deliver_all_spec msg parse tag chunks (conn0 n0) [] (new_buf_inv n0)) as (c' & E & HI & Hcon & Hsh).
    destruct (ref_decode msg parse tag (S (length (concat chunks))) (concat chunks)) as [[ms er] rest].
    destruct (liveall [] chunks) as [es lf]. cbn [fst snd] in *.
    destruct HL as (Hlen & -> & Hc).
    exists es, c'. split; [exact E|]. split; [exact Hlen|]. split; [exact Hc|].
    split; [|split; [apply inv_readable; exact HI|]].
    - rewrite Hc. intros Hin. apply in_app_or in Hin as [Hin|Hin].
      + apply in_map_iff in Hin as (m & Hm & _). discriminate Hm.
      + destruct er as [x|]; [|exact Hin]. destruct Hin as [Hin|Hin]; [discriminate Hin|].
        apply repeat_spec in Hin. discriminate Hin.
    - rewrite any_err_concat, Hc, existsb_app, no_err_in_msgs' in Hcon, Hsh.
      cbn [conn0 c_connected c_shutdowns andb orb] in Hcon, Hsh.
      destruct er as [x|]; cbn [existsb is_err orb negb] in Hcon, Hsh; split; assumption.
  Qed.
End Live.
