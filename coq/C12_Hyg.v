(* C12_Hyg: generated-fact lemmas (G) and the socket-hygiene invariant of the connector/client model,
   proved for ALL histories (no hypothesis on the history: in the assert-enabled build every overlap that
   would break it is a Fault, and a Fault ends the history). *)
From Coq Require Import List ZArith Lia Bool Arith.
From Muduo Require Import Gen_Consts Gen_C12 C12_Model.
Import ListNotations.
Local Open Scope Z_scope.

(* ------------------------------------------------------------------ G: facts about the regenerated code *)
Lemma G_init_delay : Connector_kInitRetryDelayMs = 500.
Proof. reflexivity. Qed.
Lemma G_max_delay : Connector_kMaxRetryDelayMs = 30000.
Proof. reflexivity. Qed.
Lemma G_retry_next : forall d, Connector_retry_next d = Z.min (2 * d) 30000.
Proof. intros d. unfold Connector_retry_next. rewrite G_max_delay. f_equal. lia. Qed.
Lemma G_arms_before_update : Connector_retry_arms_before_update = true.
Proof. reflexivity. Qed.

Definition is_leak (a : Connector_action) : bool := match a with ActLeak => true | _ => false end.
(* every group of the switch either watches, retries (which closes) or closes the socket *)
Lemma G_no_leak_table :
  forallb (fun p => negb (is_leak (snd p))) Connector_connect_cases && negb (is_leak Connector_connect_default) = true.
Proof. vm_compute. reflexivity. Qed.
Lemma classify_no_leak : forall e, classify e <> ActLeak.
Proof.
  intros e. unfold classify.
  pose proof G_no_leak_table as G. apply andb_prop in G. destruct G as [G1 G2].
  destruct (find (fun p => fst p =? e) Connector_connect_cases) as [[x a]|] eqn:F.
  - apply find_some in F. destruct F as [F _].
    rewrite forallb_forall in G1. specialize (G1 _ F). cbn in G1. destruct a; cbn in G1; congruence.
  - destruct Connector_connect_default; cbn in G2; congruence.
Qed.
(* the classification the property text and C11 rely on: in progress -> watched, refused/transient -> retried,
   hard errors and anything unknown -> closed (given up) *)
Lemma G_classify :
  map classify [0; EINPROGRESS; EINTR; EISCONN] = [ActConnecting; ActConnecting; ActConnecting; ActConnecting] /\
  map classify [EAGAIN; EADDRINUSE; EADDRNOTAVAIL; ECONNREFUSED; ENETUNREACH] = [ActRetry; ActRetry; ActRetry; ActRetry; ActRetry] /\
  map classify [EACCES; EPERM; EAFNOSUPPORT; EALREADY; EBADF; EFAULT; ENOTSOCK] = [ActClose; ActClose; ActClose; ActClose; ActClose; ActClose; ActClose] /\
  map classify [ETIMEDOUT; EHOSTUNREACH; ECONNRESET; ENOBUFS; 12345] = [ActClose; ActClose; ActClose; ActClose; ActClose].
Proof. vm_compute. repeat split. Qed.

(* ------------------------------------------------------------------ lists *)
Lemma nth_error_upd_same {A} (l : list A) i f : nth_error (upd l i f) i = option_map f (nth_error l i).
Proof. revert i. induction l as [|x r IH]; intros [|i]; cbn; auto. Qed.
Lemma nth_error_upd_other {A} (l : list A) i j f : i <> j -> nth_error (upd l i f) j = nth_error l j.
Proof. revert i j. induction l as [|x r IH]; intros [|i] [|j] Hn; cbn; auto; try congruence. Qed.
Lemma length_upd {A} (l : list A) i f : length (upd l i f) = length l.
Proof. revert i. induction l as [|x r IH]; intros [|i]; cbn; auto. Qed.
Lemma nth_error_upd {A} (l : list A) i j f :
  nth_error (upd l i f) j = if Nat.eq_dec i j then option_map f (nth_error l j) else nth_error l j.
Proof. destruct (Nat.eq_dec i j) as [->|N]; [apply nth_error_upd_same|apply nth_error_upd_other; auto]. Qed.
Lemma nth_error_snoc {A} (l : list A) x j :
  nth_error (l ++ [x]) j = if Nat.eq_dec j (length l) then Some x else nth_error l j.
Proof.
  destruct (Nat.eq_dec j (length l)) as [->|N].
  - rewrite nth_error_app2, Nat.sub_diag; auto.
  - destruct (Nat.lt_ge_cases j (length l)) as [L|L].
    + apply nth_error_app1; auto.
    + rewrite nth_error_app2 by lia. assert (nth_error l j = None) as -> by (apply nth_error_None; lia).
      destruct (j - length l)%nat as [|k] eqn:E; [lia|]. cbn. destruct k; reflexivity.
Qed.
Lemma nth_error_lt {A} (l : list A) i x : nth_error l i = Some x -> (i < length l)%nat.
Proof. intros H. apply nth_error_Some. congruence. Qed.

(* ------------------------------------------------------------------ the hygiene invariant on components *)
Definition ok_st (x : sockst) : Prop := x = Open \/ x = HandedOver \/ x = Closed 1 \/ x = HandedClosed 1.
Definition count_rc (q : list functor) : nat := length (filter is_FReset q).
Arguments count_rc : simpl never.

Definition chan_ok (sk : list sockst) (ch : option (nat * bool)) (n : nat) : Prop :=
  match ch with
  | None => n = 0%nat
  | Some (i, true) => nth_error sk i = Some Open /\ n = 0%nat
  | Some (i, false) => n = 1%nat
  end.

(* ex = Some i: socket i is open and held by the connector code between two calls (created and not yet
   classified; taken from the channel and not yet closed / handed over) *)
Record Hc (sk : list sockst) (ch : option (nat * bool)) (n : nat) (cs : list cobj) (ex : option nat) : Prop := {
  hc_ok : forall i x, nth_error sk i = Some x -> ok_st x;
  hc_open : forall i, nth_error sk i = Some Open -> ch = Some (i, true) \/ ex = Some i;
  hc_ex : forall i, ex = Some i -> nth_error sk i = Some Open /\ ch <> Some (i, true);
  hc_chan : chan_ok sk ch n;
  hc_conn : forall c o, nth_error cs c = Some o ->
            nth_error sk (csock o) = Some (if calive o then HandedOver else HandedClosed 1);
  hc_inj : forall c1 c2 o1 o2, nth_error cs c1 = Some o1 -> nth_error cs c2 = Some o2 -> csock o1 = csock o2 -> c1 = c2;
  (* a socket that was handed over belongs to a connection object *)
  hc_owner : forall i, nth_error sk i = Some HandedOver \/ nth_error sk i = Some (HandedClosed 1) ->
             exists c o, nth_error cs c = Some o /\ csock o = i
}.

Lemma Hc_new sk ch n cs : Hc sk ch n cs None -> Hc (sk ++ [Open]) ch n cs (Some (length sk)).
Proof.
  intros [Hok Hop Hex Hch Hcn Hin How]. split.
  - intros i x. rewrite nth_error_snoc. destruct (Nat.eq_dec i (length sk)); [intros [= <-]; left; auto|apply Hok].
  - intros i. rewrite nth_error_snoc. destruct (Nat.eq_dec i (length sk)) as [->|]; [auto|].
    intros H. destruct (Hop _ H) as [?|?]; [auto|discriminate].
  - intros i [= <-]. rewrite nth_error_snoc. destruct (Nat.eq_dec (length sk) (length sk)); [|congruence]. split; auto.
    intros E. rewrite E in Hch. cbn in Hch. destruct Hch as [Hch _]. apply nth_error_lt in Hch. lia.
  - destruct ch as [[i [|]]|]; cbn in *; auto. destruct Hch as [H1 H2]. split; auto.
    rewrite nth_error_app1; auto. eapply nth_error_lt; eauto.
  - intros c o H. specialize (Hcn _ _ H). rewrite nth_error_app1; auto. eapply nth_error_lt; eauto.
  - exact Hin.
  - intros i. rewrite nth_error_snoc. destruct (Nat.eq_dec i (length sk)); [intros [H|H]; discriminate|apply How].
Qed.

Lemma Hc_close sk ch n cs i : Hc sk ch n cs (Some i) -> Hc (upd sk i close_state) ch n cs None.
Proof.
  intros [Hok Hop Hex Hch Hcn Hin How]. destruct (Hex i eq_refl) as [Hi Hne]. split.
  - intros j x. rewrite nth_error_upd. destruct (Nat.eq_dec i j) as [<-|].
    + rewrite Hi. cbn. intros [= <-]. right; right; left; auto.
    + apply Hok.
  - intros j. rewrite nth_error_upd. destruct (Nat.eq_dec i j) as [<-|N].
    + rewrite Hi. cbn. discriminate.
    + intros H. destruct (Hop _ H) as [?|E]; [auto|]. congruence.
  - discriminate.
  - destruct ch as [[j [|]]|]; cbn in *; auto. destruct Hch as [H1 H2]. split; auto.
    rewrite nth_error_upd_other; auto. intros <-. apply Hne. reflexivity.
  - intros c o H. specialize (Hcn _ _ H). rewrite nth_error_upd_other; auto. intros E. rewrite <- E, Hi in Hcn. destruct (calive o); discriminate.
  - exact Hin.
  - intros j. rewrite nth_error_upd. destruct (Nat.eq_dec i j) as [<-|]; [rewrite Hi; cbn; intros [H|H]; discriminate|apply How].
Qed.

Lemma Hc_watch sk n cs i : Hc sk None n cs (Some i) -> Hc sk (Some (i, true)) n cs None.
Proof.
  intros [Hok Hop Hex Hch Hcn Hin How]. destruct (Hex i eq_refl) as [Hi Hne]. split; auto.
  - intros j H. destruct (Hop _ H) as [?|E]; [discriminate|]. inversion E; subst. auto.
  - discriminate.
  - cbn in *. auto.
Qed.

Lemma Hc_hand sk ch n cs i o : csock o = i -> calive o = true ->
  Hc sk ch n cs (Some i) -> Hc (upd sk i hand_state) ch n (cs ++ [o]) None.
Proof.
  intros Ei Ea [Hok Hop Hex Hch Hcn Hin How]. destruct (Hex i eq_refl) as [Hi Hne]. split.
  - intros j x. rewrite nth_error_upd. destruct (Nat.eq_dec i j) as [<-|].
    + rewrite Hi. cbn. intros [= <-]. right; left; auto.
    + apply Hok.
  - intros j. rewrite nth_error_upd. destruct (Nat.eq_dec i j) as [<-|N].
    + rewrite Hi. cbn. discriminate.
    + intros H. destruct (Hop _ H) as [?|E]; [auto|]. congruence.
  - discriminate.
  - destruct ch as [[j [|]]|]; cbn in *; auto. destruct Hch as [H1 H2]. split; auto.
    rewrite nth_error_upd_other; auto. intros <-. apply Hne. reflexivity.
  - intros c o'. rewrite nth_error_snoc. destruct (Nat.eq_dec c (length cs)).
    + intros [= <-]. rewrite Ei, Ea, nth_error_upd_same, Hi. reflexivity.
    + intros H. specialize (Hcn _ _ H). rewrite nth_error_upd_other; auto.
      intros E. rewrite <- E, Hi in Hcn. destruct (calive o'); discriminate.
  - intros c1 c2 o1 o2. rewrite !nth_error_snoc.
    destruct (Nat.eq_dec c1 (length cs)) as [->|], (Nat.eq_dec c2 (length cs)) as [->|]; auto.
    + intros [= <-] H2 E. specialize (Hcn _ _ H2). rewrite <- E, Ei, Hi in Hcn. destruct (calive o2); discriminate.
    + intros H1 [= <-] E. specialize (Hcn _ _ H1). rewrite E, Ei, Hi in Hcn. destruct (calive o1); discriminate.
    + apply Hin.
  - intros j. rewrite nth_error_upd. destruct (Nat.eq_dec i j) as [<-|N].
    + intros _. exists (length cs), o. rewrite nth_error_snoc. destruct (Nat.eq_dec (length cs) (length cs)); [auto|congruence].
    + intros H. destruct (How _ H) as (c & o' & H1 & H2). exists c, o'. rewrite nth_error_app1; [auto|eapply nth_error_lt; eauto].
Qed.

Lemma Hc_unreg sk n cs i : Hc sk (Some (i, true)) n cs None -> Hc sk (Some (i, false)) (S n) cs (Some i).
Proof.
  intros [Hok Hop Hex Hch Hcn Hin How]. cbn in Hch. destruct Hch as [Hi Hn]. split; auto.
  - intros j H. destruct (Hop _ H) as [E|?]; [|discriminate]. inversion E; subst. auto.
  - intros j [= <-]. split; auto. discriminate.
  - cbn. lia.
Qed.

Lemma Hc_reset sk ch n cs : Hc sk ch (S n) cs None -> Hc sk None n cs None.
Proof.
  intros [Hok Hop Hex Hch Hcn Hin How].
  destruct ch as [[i [|]]|]; cbn in Hch; try (destruct Hch; discriminate); try discriminate.
  assert (n = 0%nat) as -> by lia. split; auto.
  - intros j H. destruct (Hop _ H) as [E|?]; discriminate.
  - discriminate.
  - cbn. reflexivity.
Qed.

Lemma Hc_gcclose sk ch n cs c o : nth_error cs c = Some o -> calive o = true ->
  Hc sk ch n cs None -> Hc (upd sk (csock o) conn_close_state) ch n (upd cs c (c_set_alive false)) None.
Proof.
  intros Hc0 Ha [Hok Hop Hex Hch Hcn Hin How].
  pose proof (Hcn _ _ Hc0) as Hs. rewrite Ha in Hs. split.
  - intros j x. rewrite nth_error_upd. destruct (Nat.eq_dec (csock o) j) as [<-|].
    + rewrite Hs. cbn. intros [= <-]. right; right; right; auto.
    + apply Hok.
  - intros j. rewrite nth_error_upd. destruct (Nat.eq_dec (csock o) j) as [<-|N]; [rewrite Hs; cbn; discriminate|apply Hop].
  - discriminate.
  - destruct ch as [[j [|]]|]; cbn in *; auto. destruct Hch as [H1 H2]. split; auto.
    rewrite nth_error_upd_other; auto. intros <-. congruence.
  - intros c' o'. rewrite nth_error_upd. destruct (Nat.eq_dec c c') as [<-|N].
    + rewrite Hc0. cbn. intros [= <-]. cbn. rewrite nth_error_upd_same, Hs. reflexivity.
    + intros H. rewrite nth_error_upd_other; [apply (Hcn _ _ H)|].
      intros E. apply N. eapply Hin; eauto.
  - intros c1 c2 o1 o2. rewrite !nth_error_upd.
    destruct (Nat.eq_dec c c1) as [<-|N1], (Nat.eq_dec c c2) as [<-|N2]; auto.
    + rewrite Hc0. cbn. intros [= <-] H2 E. cbn in E. eapply Hin; eauto.
    + rewrite Hc0. cbn. intros H1 [= <-] E. cbn in E. eapply Hin; eauto.
    + apply Hin.
  - intros j. rewrite nth_error_upd. destruct (Nat.eq_dec (csock o) j) as [<-|N].
    + intros _. exists c, (c_set_alive false o). rewrite nth_error_upd_same, Hc0. split; auto; destruct o; auto.
    + intros H. destruct (How _ H) as (c' & o' & H1 & H2). destruct (Nat.eq_dec c c') as [<-|Nc].
      * exists c, (c_set_alive false o). rewrite nth_error_upd_same, Hc0. rewrite Hc0 in H1. injection H1 as <-. split; auto; destruct o; auto.
      * exists c', o'. rewrite nth_error_upd_other; auto.
Qed.

Lemma Hc_setc sk ch n cs ex c f :
  (forall o, csock (f o) = csock o /\ calive (f o) = calive o) ->
  Hc sk ch n cs ex -> Hc sk ch n (upd cs c f) ex.
Proof.
  intros Hf [Hok Hop Hex Hch Hcn Hin How]. split; auto.
  - intros c' o'. rewrite nth_error_upd. destruct (Nat.eq_dec c c') as [<-|N]; [|apply Hcn].
    destruct (nth_error cs c) as [o|] eqn:E; cbn; [|discriminate]. intros [= <-].
    destruct (Hf o) as [-> ->]. apply (Hcn _ _ E).
  - intros c1 c2 o1 o2. rewrite !nth_error_upd.
    destruct (Nat.eq_dec c c1) as [<-|N1], (Nat.eq_dec c c2) as [<-|N2]; auto.
    + destruct (nth_error cs c) as [o|] eqn:E; cbn; [|discriminate]. intros [= <-] H2. destruct (Hf o) as [-> _]. eapply Hin; eauto.
    + destruct (nth_error cs c) as [o|] eqn:E; cbn; [|discriminate]. intros H1 [= <-]. destruct (Hf o) as [-> _]. eapply Hin; eauto.
    + apply Hin.
  - intros j H. destruct (How _ H) as (c' & o' & H1 & H2). destruct (Nat.eq_dec c c') as [<-|Nc].
    + exists c, (f o'). rewrite nth_error_upd_same, H1. split; auto. destruct (Hf o') as [-> _]. auto.
    + exists c', o'. rewrite nth_error_upd_other; auto.
Qed.

Lemma Hc_map sk ch n cs ex f :
  (forall o, csock (f o) = csock o /\ calive (f o) = calive o) ->
  Hc sk ch n cs ex -> Hc sk ch n (map f cs) ex.
Proof.
  intros Hf [Hok Hop Hex Hch Hcn Hin How]. split; auto.
  - intros c o'. rewrite nth_error_map. destruct (nth_error cs c) as [o|] eqn:E; cbn; [|discriminate]. intros [= <-].
    destruct (Hf o) as [-> ->]. apply (Hcn _ _ E).
  - intros c1 c2 o1 o2. rewrite !nth_error_map.
    destruct (nth_error cs c1) as [a|] eqn:E1; cbn; [|discriminate].
    destruct (nth_error cs c2) as [b|] eqn:E2; cbn; [|discriminate].
    intros [= <-] [= <-]. destruct (Hf a) as [-> _]. destruct (Hf b) as [-> _]. eapply Hin; eauto.
  - intros j H. destruct (How _ H) as (c' & o' & H1 & H2). exists c', (f o'). rewrite nth_error_map, H1. split; auto. destruct (Hf o') as [-> _]. auto.
Qed.

(* ------------------------------------------------------------------ the invariant on states *)
Definition Hs (ex : option nat) (s : st) : Prop :=
  Hc (socks s) (k_chan s) (count_rc (pending s)) (conns s) ex.

Lemma count_rc_snoc q f : count_rc (q ++ [f]) = (count_rc q + (if is_FReset f then 1 else 0))%nat.
Proof. unfold count_rc. rewrite filter_app, app_length. cbn. destruct (is_FReset f); reflexivity. Qed.
Lemma count_rc_cons q f : count_rc (f :: q) = ((if is_FReset f then 1 else 0) + count_rc q)%nat.
Proof. unfold count_rc. cbn. destruct (is_FReset f); reflexivity. Qed.

(* partial-correctness triple: a Fault ends the history, nothing to show *)
Definition wp (m : M) (Q : st -> Prop) : Prop := match m with None => True | Some (s, _) => Q s end.
Lemma wp_bind m f Q : wp m (fun s => wp (f s) Q) -> wp (bind m f) Q.
Proof.
  unfold wp, bind. destruct m as [[s e]|]; auto. destruct (f s) as [[s' e']|]; auto.
Qed.
Lemma wp_bind_some s e f Q : wp (f s) Q -> wp (bind (Some (s, e)) f) Q.
Proof. intros H. apply wp_bind. exact H. Qed.
Lemma wp_ret s (Q : st -> Prop) : Q s -> wp (ret s) Q.
Proof. auto. Qed.
Lemma wp_mono m (Q R : st -> Prop) : (forall s, Q s -> R s) -> wp m Q -> wp m R.
Proof. unfold wp. destruct m as [[s e]|]; auto. Qed.

Ltac hs := unfold Hs in *; cbn in *.

Lemma do_close_H s i : Hs (Some i) s -> wp (do_close s i) (Hs None).
Proof. intros H. hs. apply Hc_close; auto. Qed.

Lemma retry_H s i : Hs (Some i) s -> wp (retry s i) (Hs None).
Proof.
  intros H. unfold retry. apply wp_bind. eapply wp_mono; [|apply do_close_H; eauto].
  intros s1 H1. cbn. destruct (k_connect s1); hs; auto.
Qed.

Lemma connecting_H s i : Hs (Some i) s -> wp (connecting s i) (Hs None).
Proof.
  intros H. unfold connecting. cbn. destruct (k_chan s) as [p|] eqn:E; cbn; auto.
  hs. rewrite E in H. apply Hc_watch; auto.
Qed.

Lemma classify_H s i e : Hs (Some i) s ->
  wp (match classify e with
      | ActConnecting => connecting s i | ActRetry => retry s i | ActClose => do_close s i | ActLeak => ret s end) (Hs None).
Proof.
  intros H. pose proof (classify_no_leak e) as NL.
  destruct (classify e); try congruence; [apply connecting_H|apply retry_H|apply do_close_H]; auto.
Qed.

Lemma connect_H s : Hs None s -> wp (connect_ s) (Hs None).
Proof.
  intros H. unfold connect_.
  assert (H0 : Hs (Some (length (socks s))) (set_socks s (socks s ++ [Open]))) by (hs; apply Hc_new; auto).
  cbn [kq set_socks]. destruct (kq s) as [|e r] eqn:Ek; apply wp_bind; cbn -[classify]; apply classify_H; hs; auto.
Qed.

Lemma startInLoop_H s : Hs None s -> wp (startInLoop s) (Hs None).
Proof.
  intros H. unfold startInLoop. destruct (negb _); cbn; auto.
  destruct (k_connect s); [apply connect_H|]; auto.
Qed.

Lemma restart_H s : Hs None s -> wp (restart s) (Hs None).
Proof. intros H. unfold restart. apply wp_bind_some. apply startInLoop_H. hs. auto. Qed.

Lemma removeAndResetChannel_H s : Hs None s ->
  match removeAndResetChannel s with Some (s', i) => Hs (Some i) s' | None => True end.
Proof.
  intros H. unfold removeAndResetChannel. destruct (k_chan s) as [[i [|]]|] eqn:E; auto.
  hs. rewrite E in H. rewrite count_rc_snoc. cbn. rewrite Nat.add_1_r. apply Hc_unreg; auto.
Qed.

Lemma newConnection_H s i : Hs (Some i) s -> wp (newConnection s i) (Hs None).
Proof.
  intros H. unfold newConnection. destruct (negb (alive s)); cbn; auto.
  hs. apply Hc_hand; auto.
Qed.

Lemma removeConnection_H s c : Hs None s -> wp (removeConnection s c) (Hs None).
Proof.
  intros H. unfold removeConnection. destruct (negb (alive s)); cbn; auto.
  destruct (connection s) as [c'|]; cbn; auto. destruct (negb (c' =? c)%nat); cbn; auto.
  assert (H1 : Hs None (enq (set_connection s None) (FConnDestroyed c))).
  { hs. rewrite count_rc_snoc. cbn. rewrite Nat.add_0_r. auto. }
  destruct (c_retry _ && c_connect _); [apply restart_H|]; auto.
Qed.

Lemma setc_H s ex c f : (forall o, csock (f o) = csock o /\ calive (f o) = calive o) -> Hs ex s -> Hs ex (setc s c f).
Proof. intros Hf H. hs. apply Hc_setc; auto. Qed.
Lemma enq_H s ex f : is_FReset f = false -> Hs ex s -> Hs ex (enq s f).
Proof. intros Hf H. hs. rewrite count_rc_snoc, Hf, Nat.add_0_r. auto. Qed.

Ltac fld := let x := fresh "x" in intros x; destruct x; cbn; auto.

Lemma handleClose_H s c : Hs None s -> wp (handleClose s c) (Hs None).
Proof.
  intros H. unfold handleClose. destruct (nth_error (conns s) c) as [o|]; [|exact I].
  apply wp_bind_some.
  assert (H1 : Hs None (setc s c (c_set_st CDisconnected))) by (apply setc_H; auto; fld).
  destruct (ccb o); [apply removeConnection_H|apply wp_ret; apply enq_H]; auto.
Qed.

Lemma handleWrite_H s err selfc : Hs None s -> wp (handleWrite s err selfc) (Hs None).
Proof.
  intros H. unfold handleWrite. destruct (kstate_eqb (k_state s) KConnecting).
  - pose proof (removeAndResetChannel_H s H) as R. destruct (removeAndResetChannel s) as [[s1 i]|]; cbn; auto.
    destruct (negb (err =? 0)); [apply retry_H; auto|]. destruct selfc; [apply retry_H; auto|].
    cbn. destruct (k_connect s1); [apply newConnection_H|apply do_close_H]; hs; auto.
  - destruct (kstate_eqb (k_state s) KDisconnected); cbn; auto.
Qed.

Lemma handleError_H s : Hs None s -> wp (handleError s) (Hs None).
Proof.
  intros H. unfold handleError. destruct (kstate_eqb (k_state s) KConnecting); cbn; auto.
  pose proof (removeAndResetChannel_H s H) as R. destruct (removeAndResetChannel s) as [[s1 i]|]; cbn; auto.
  apply retry_H; auto.
Qed.

Lemma stopInLoop_H s : Hs None s -> wp (stopInLoop s) (Hs None).
Proof.
  intros H. unfold stopInLoop. destruct (kstate_eqb (k_state s) KConnecting); cbn; auto.
  assert (H0 : Hs None (set_k_state s KDisconnected)) by (hs; auto).
  pose proof (removeAndResetChannel_H _ H0) as R.
  destruct (removeAndResetChannel (set_k_state s KDisconnected)) as [[s1 i]|]; cbn; auto.
  apply retry_H; auto.
Qed.

Lemma conn_shutdown_H s c b : Hs None s -> wp (conn_shutdown s c b) (Hs None).
Proof.
  intros H. unfold conn_shutdown. destruct (nth_error (conns s) c) as [o|]; cbn; auto.
  destruct (cst o); cbn; auto. destruct b; cbn.
  - apply setc_H; [fld|]. apply setc_H; [fld|]. auto.
  - apply enq_H; auto. apply setc_H; [fld|]. auto.
Qed.

Lemma conn_forceClose_H s c : Hs None s -> Hs None (conn_forceClose s c).
Proof.
  intros H. unfold conn_forceClose. destruct (nth_error (conns s) c) as [o|]; auto.
  destruct (c_live (cst o)); auto. apply enq_H; auto. apply setc_H; [fld|]. auto.
Qed.

Lemma gc_from_H n : forall c s, Hs None s -> wp (gc_from n c s) (Hs None).
Proof.
  induction n as [|n IH]; intros c s H; cbn [gc_from]; [exact H|].
  destruct (nth_error (conns s) c) as [o|] eqn:E; [|exact H].
  destruct (calive o && (refs s c =? 0)%nat) eqn:G; [|apply IH; auto].
  apply andb_prop in G. destruct G as [Ga _].
  destruct (cst o); try exact I. destruct (creg o); [exact I|].
  apply wp_bind_some. apply IH. hs. apply Hc_gcclose; auto.
Qed.

Lemma finish_H m : wp m (Hs None) -> wp (finish m) (Hs None).
Proof.
  intros H. unfold finish. apply wp_bind. apply wp_bind. eapply wp_mono; [|exact H].
  intros s Hs0. eapply wp_mono; [|apply gc_from_H; exact Hs0].
  intros s1 H1. unfold settle. destruct (_ && _ && _ && _); cbn; auto.
  destruct (k_chan s1) eqn:E; cbn; auto.
Qed.

Lemma run_functor_H s f r : pending s = f :: r -> Hs None s -> wp (run_functor (set_pending s r) f) (Hs None).
Proof.
  intros Hp H.
  assert (Hn : is_FReset f = false -> Hs None (set_pending s r)).
  { intros Hf. hs. rewrite Hp, count_rc_cons, Hf in H. auto. }
  destruct f; cbn [run_functor].
  - destruct (k_dead (set_pending s r)); [exact I|]. apply wp_bind_some. apply startInLoop_H; auto.
  - destruct (k_dead (set_pending s r)); [exact I|]. apply stopInLoop_H; auto.
  - destruct (k_dead (set_pending s r)); [exact I|]. apply wp_ret. hs. rewrite Hp, count_rc_cons in H. cbn in H. eapply Hc_reset; eauto.
  - destruct (nth_error (conns (set_pending s r)) c) as [o|]; [|exact I].
    destruct (c_live (cst o)); apply wp_ret; (apply setc_H; [fld|]; auto).
  - destruct (nth_error (conns (set_pending s r)) c) as [o|]; [|exact I].
    destruct (c_live (cst o)); [apply handleClose_H|apply wp_ret]; auto.
  - apply wp_ret. apply setc_H; [fld|]; auto.
  - destruct (nth_error (conns (set_pending s r)) c) as [o|]; [|exact I].
    destruct (calive o); [|exact I]. apply wp_ret. apply setc_H; [fld|]; auto.
  - specialize (Hn eq_refl). apply wp_ret. hs. auto.
Qed.

Lemma run_one_H s : Hs None s -> wp (run_one s) (Hs None).
Proof.
  intros H. unfold run_one. destruct (pending s) as [|f r] eqn:E; cbn; auto.
  apply finish_H. eapply run_functor_H; eauto.
Qed.

Lemma run_n_H n : forall s, Hs None s -> wp (run_n n s) (Hs None).
Proof.
  induction n as [|n IH]; intros s H; cbn; auto.
  apply wp_bind. eapply wp_mono; [|apply run_one_H; auto]. intros s1 H1. apply IH; auto.
Qed.

Lemma fire_all_H l : forall s, Hs None s -> wp (fire_all l s) (Hs None).
Proof.
  induction l as [|t r IH]; intros s H; cbn; auto.
  apply wp_bind. unfold fire. destruct (snd t).
  - eapply wp_mono; [|apply startInLoop_H; auto]. intros; apply IH; auto.
  - cbn. apply IH; auto.
Qed.

Lemma destroy_rest_H s snap b : Hs None s -> wp (destroy_rest s snap b) (Hs None).
Proof.
  intros H. unfold destroy_rest. destruct snap as [conn unique].
  destruct conn as [c|].
  - destruct b.
    + destruct unique; cbn.
      * assert (H1 : Hs None (conn_forceClose (setc s c (c_set_cb CbDetached)) c)) by (apply conn_forceClose_H; apply setc_H; [fld|]; auto).
        hs. auto.
      * assert (H1 : Hs None (setc s c (c_set_cb CbDetached))) by (apply setc_H; [fld|]; auto). hs. auto.
    + destruct unique; cbn.
      * assert (H1 : Hs None (conn_forceClose (enq s (FSetCloseCb c)) c)) by (apply conn_forceClose_H; apply enq_H; auto).
        hs. auto.
      * assert (H1 : Hs None (enq s (FSetCloseCb c))) by (apply enq_H; auto). hs. auto.
  - destruct b; cbn.
    + assert (H1 : Hs None (enq (set_k_connect s false) FStop)) by (apply enq_H; auto). hs. auto.
    + assert (H1 : Hs None (enq (enq (set_k_connect s false) FStop) (FAddHack (now s + 1000)))).
      { apply enq_H; auto. apply enq_H; auto. }
      hs. auto.
Qed.

Lemma step_core_H s o : Hs None s -> match step_core s o with Some m => wp m (Hs None) | None => True end.
Proof.
  intros H. destruct o; cbn [step_core].
  - destruct (negb (user_api_ok s)); [exact I|]. apply wp_bind_some. apply startInLoop_H. hs. auto.
  - destruct (negb (user_api_ok s)); [exact I|].
    destruct (connection (set_c_connect s false)); [apply conn_shutdown_H|apply wp_ret]; hs; auto.
  - destruct (negb (user_api_ok s)); [exact I|]. cbn.
    assert (H1 : Hs None (enq (set_k_connect (set_c_connect s false) false) FStop)) by (apply enq_H; auto). auto.
  - destruct (negb (user_api_ok s)); [exact I|]. hs. auto.
  - destruct (_ || _ || _ || _); [exact I|]. apply destroy_rest_H; auto.
  - destruct (_ || _); [exact I|]. hs. auto.
  - destruct (_ || _); [exact I|]. cbn.
    assert (H1 : Hs None (enq (set_xc s false) FStart)) by (apply enq_H; auto). auto.
  - destruct (_ || _); [exact I|]. hs. auto.
  - destruct (_ || _); [exact I|]. cbn.
    assert (H1 : Hs None (enq (set_xs s false) FStop)) by (apply enq_H; auto). auto.
  - destruct (_ || _); [exact I|]. hs. auto.
  - destruct (_ || _); [exact I|].
    destruct (connection (set_xd s false)); [apply conn_shutdown_H|apply wp_ret]; hs; auto.
  - destruct (_ || _ || _ || _); [exact I|]. destruct (connection s); hs; auto.
  - destruct (dsnap s); [|exact I]. apply destroy_rest_H. hs. auto.
  - destruct (_ || _ || _ || _); [exact I|]. destruct (k_chan s) as [[i [|]]|]; try exact I. destruct (_ || _ || _); exact I.
  - hs. auto.
  - destruct (k_chan s) as [[i [|]]|]; try exact I. destruct (k_dead s); [exact I|]. apply handleWrite_H; auto.
  - destruct (k_chan s) as [[i [|]]|]; try exact I. destruct (k_dead s); [exact I|]. apply handleError_H; auto.
  - destruct (min_due (timers s)); [|exact I].
    apply fire_all_H. hs. auto.
  - apply wp_bind. eapply wp_mono; [|apply run_n_H; auto]. intros s1 H1. cbn. hs.
    apply Hc_map; auto; fld.
  - destruct (pending s); [exact I|]. apply run_one_H; auto.
  - destruct (find_down _ _ _); [|exact I]. apply handleClose_H; auto.
  - destruct (negb (user_api_ok s)); [exact I|]. destruct (connection s); [|exact I].
    destruct (find_user _ _); [exact I|]. cbn. apply setc_H; [fld|]; auto.
  - destruct (find_user _ _) as [c|]; [|exact I]. destruct (nth_error _ _); [|exact I].
    cbn. apply setc_H; [fld|]; auto.
  - (* LoopEnd *)
    destruct (_ || _ || _); [exact I|]. unfold loop_end. cbn [k_chan set_timers set_pending].
    destruct (k_chan s) eqn:E; [exact I|]. apply wp_ret. hs. rewrite E in *.
    destruct H as [H1 H2 H3 H4 H5 H6 H7]. split; auto. cbn in *. reflexivity.
Qed.

Lemma init_H : Hs None init.
Proof.
  unfold Hs. cbn. split; cbn; auto.
  - intros [|i] x; discriminate.
  - intros [|i]; discriminate.
  - discriminate.
  - intros [|c] o; discriminate.
  - intros [|c1] c2 o1; discriminate.
  - intros [|i] [H|H]; discriminate.
Qed.

Lemma step_H s o s' ev : Hs None s -> step s o = Ok s' ev -> Hs None s'.
Proof.
  intros H. unfold step. pose proof (step_core_H s o H) as W.
  destruct (step_core s o) as [m|]; [|discriminate].
  apply finish_H in W. destruct (finish m) as [[s1 e1]|]; [|discriminate].
  intros [= <- _]. hs. auto.
Qed.

Lemma run_H l : forall s s' ev, Hs None s -> run s l = Some (s', ev) -> Hs None s'.
Proof.
  induction l as [|o r IH]; intros s s' ev H; cbn.
  - intros [= <- _]. auto.
  - destruct (step s o) as [s1 e1| |] eqn:E; [|eauto|discriminate].
    destruct (run s1 r) as [[s2 e2]|] eqn:R; [|discriminate]. intros [= <- _].
    eapply IH; [|eauto]. eapply step_H; eauto.
Qed.

(* the hygiene theorem in the words of the property:
   at every state reached by any history, every socket the connector ever created is
     open (then the connector's registered channel watches exactly this socket), or
     handed over as the connection (and closed by that connection at most once), or
     closed by the connector exactly once;
   no socket is closed twice, none is both closed by the connector and handed over *)
Definition hygiene (s : st) : Prop :=
  forall i x, nth_error (socks s) i = Some x ->
    (x = Open /\ k_chan s = Some (i, true)) \/ x = HandedOver \/ x = HandedClosed 1 \/ x = Closed 1.

Theorem hygiene_all_histories : forall l s ev, run init l = Some (s, ev) -> hygiene s.
Proof.
  intros l s ev R. pose proof (run_H l _ _ _ init_H R) as [Hok Hop _ _ _ _].
  intros i x Hx. destruct (Hok _ _ Hx) as [ -> | [ -> | [ -> | -> ] ] ]; auto.
  left. split; auto. destruct (Hop _ Hx) as [?|?]; [auto|discriminate].
Qed.

(* at quiescence of the connector (no channel) no socket is left open *)
Corollary hygiene_quiescent : forall l s ev, run init l = Some (s, ev) -> k_chan s = None ->
  forall i x, nth_error (socks s) i = Some x -> x = HandedOver \/ x = HandedClosed 1 \/ x = Closed 1.
Proof.
  intros l s ev R Hn i x Hx. destruct (hygiene_all_histories _ _ _ R _ _ Hx) as [[_ E]|?]; auto. congruence.
Qed.

(* every connection object owns exactly the socket that was handed over for it, and closes it when it dies *)
Theorem conn_sockets : forall l s ev, run init l = Some (s, ev) ->
  forall c o, nth_error (conns s) c = Some o ->
    nth_error (socks s) (csock o) = Some (if calive o then HandedOver else HandedClosed 1) /\
    (forall c' o', nth_error (conns s) c' = Some o' -> csock o' = csock o -> c' = c).
Proof.
  intros l s ev R c o Hc0. pose proof (run_H l _ _ _ init_H R) as [_ _ _ _ Hcn Hin].
  split; [apply (Hcn _ _ Hc0)|]. intros c' o' H' E. eapply Hin; eauto.
Qed.

(* a socket that was handed over belongs to a connection object (so "handed over" is never a way to lose a descriptor) *)
Theorem handed_has_owner : forall l s ev, run init l = Some (s, ev) ->
  forall i, nth_error (socks s) i = Some HandedOver \/ nth_error (socks s) i = Some (HandedClosed 1) ->
  exists c o, nth_error (conns s) c = Some o /\ csock o = i.
Proof. intros l s ev R. pose proof (run_H l _ _ _ init_H R) as H. destruct H. auto. Qed.

(* ------------------------------------------------------------------ G: the guards of the anchored decisions, regenerated from
   the source, are the tests the model makes: each model function equals itself re-assembled around the generated guard *)
Definition startInLoop_src (s : st) : M :=
  if negb (kstate_eqb (k_state s) KDisconnected) then None
  else if Connector_start_guard (k_connect s) then connect_ s else ret s.
Definition retry_src (s : st) (i : nat) : M :=
  bind (do_close s i) (fun s =>
  let s := set_k_state s KDisconnected in
  if Connector_retry_guard (k_connect s) then
    let d := if Connector_retry_arms_before_update then k_delay s else Connector_retry_next (k_delay s) in
    Some (set_k_delay (set_timers s (timers s ++ [(now s + d, TRetry)])) (Connector_retry_next (k_delay s)), [EvArm d])
  else ret s).
Definition handleWrite_src (s : st) (err : Z) (selfc : bool) : M :=
  if kstate_eqb (k_state s) KConnecting then
    match removeAndResetChannel s with
    | None => None
    | Some (s, i) =>
        if negb (err =? 0) then retry s i
        else if selfc then retry s i
        else
          let s := set_k_state s KConnected in
          if Connector_handover_guard (k_connect s) then newConnection s i else do_close s i
    end
  else if kstate_eqb (k_state s) KDisconnected then ret s else None.
Definition removeConnection_src (s : st) (c : nat) : M :=
  if negb (alive s) then None else
  match connection s with
  | Some c' =>
      if negb (c' =? c)%nat then None else
      let s := enq (set_connection s None) (FConnDestroyed c) in
      if TcpClient_reconnect_guard (c_retry s) (c_connect s) then restart s else ret s
  | None => None
  end.
Lemma G_guards :
  (forall s, startInLoop s = startInLoop_src s) /\
  (forall s i, retry s i = retry_src s i) /\
  (forall s e b, handleWrite s e b = handleWrite_src s e b) /\
  (forall s c, removeConnection s c = removeConnection_src s c).
Proof. repeat split; intros; reflexivity. Qed.
