(* Conn_Faults: transient socket faults on a connection are exactly delays (property C11,
   the part that concerns one TcpConnection).  Lemmas only; the model is Conn_Model. *)
From Coq Require Import List ZArith Lia Bool Arith NArith.
From Coq.Strings Require Import Byte.
From Muduo Require Import Conn_Model Conn_Proofs.
Import ListNotations.

Arguments Nat.min : simpl never.
Arguments N.leb : simpl never.
Arguments N.ltb : simpl never.
Arguments N.of_nat : simpl never.

(* a transient kernel answer: a failed call whose errno is not fatal for the connection *)
Definition transient (k : kres) : bool :=
  match k with Err e => negb (is_fatal e) | _ => false end.

(* the same history without the transient faults: a failed write of a block (sendInLoop on either
   path) is a write that took nothing - the user's send() call itself is never erased, an empty
   one included (REVIEW_C item 4); a failed drain, a failed read and a POLLERR simply did not happen *)
Definition calm (o : op) : list op :=
  match o with
  | Send d k => if transient k then [Send d (Accept 0)] else [o]
  | RunOne k => if transient k then [RunOne (Accept 0)] else [o]
  | EvWritable k => if transient k then [] else [o]
  | EvReadErr | EvError => []
  | _ => [o]
  end.

(* ops that carry no transient fault *)
Definition faultless (o : op) : bool :=
  match o with
  | Send _ k | RunOne k | EvWritable k => negb (transient k)
  | EvReadErr | EvError => false
  | _ => true
  end.

Lemma calm_faultless o : forallb faultless (calm o) = true.
Proof.
  destruct o; cbn; try reflexivity.
  - destruct (transient k) eqn:E; [reflexivity|]. cbn. rewrite E. reflexivity.
  - destruct (transient k) eqn:E; [reflexivity|]. cbn. rewrite E. reflexivity.
  - destruct (transient k) eqn:E; [reflexivity|]. cbn. rewrite E. reflexivity.
Qed.

Lemma calm_idem o : faultless o = true -> calm o = [o].
Proof.
  destruct o; cbn; try reflexivity; try discriminate;
    intros H; apply negb_true_iff in H; rewrite H; reflexivity.
Qed.

(* environment contract: the kernel never answers a ZERO-LENGTH write with a transient error
   (write(fd, p, 0) on a socket returns 0) - be it the write of a queued foreign empty block or
   the direct write of a loop-thread send("") (the latter only happens when nothing is queued and
   write interest is off).  Without it the model shows one visible difference: no write-complete
   callback for that empty block. *)
Definition env_ok (c : conn) (o : op) : Prop :=
  match o with
  | RunOne k => match pending c with FSend _ [] :: _ => transient k = false | _ => True end
  | Send [] k => if negb (writing c) && (length (outb c) =? 0) then transient k = false else True
  | _ => True
  end.

Fixpoint env_ok_run (c : conn) (ops : list op) : Prop :=
  match ops with
  | [] => True
  | o :: r => env_ok c o /\ match step c o with Ok (c1, _) => env_ok_run c1 r | _ => True end
  end.

Definition is_log (ev : event) : bool := match ev with EvErrorLogged => true | _ => false end.
Definition quiet (e : list event) : list event := filter (fun x => negb (is_log x)) e.

Lemma quiet_app e1 e2 : quiet (e1 ++ e2) = quiet e1 ++ quiet e2.
Proof. apply filter_app. Qed.

Lemma quiet_s_evs c k : quiet (s_evs c k) = [].
Proof.
  unfold s_evs. destruct (s_direct c); [|reflexivity].
  destruct (effective c k) as [| |[]]; reflexivity.
Qed.

Lemma conn_eta c :
  mkConn (st c) (outb c) (inb c) (writing c) (rd_chan c) (rd_flag c) (registered c) (hwm c) (has_wc c)
         (has_hwm c) (wire c) (fin c) (pending c) (chk c) (delayed c) (accepted c) (consumed c)
         (delivered c) (enq c) (ran c) (ups c) (downs c) = c.
Proof. destruct c. reflexivity. Qed.

(* ---- sendInLoop under a transient fault --------------------------------------------------- *)
Lemma s_calm c d k : d <> [] -> transient k = true ->
  s_nwrote c d k = s_nwrote c d (Accept 0) /\ s_fatal c k = s_fatal c (Accept 0) /\
  s_wc c d k = s_wc c d (Accept 0).
Proof.
  intros Hd Ht. destruct k as [| |e]; try discriminate. cbn in Ht. apply negb_true_iff in Ht.
  assert (Hl : (length d =? 0) = false) by (destruct d; [contradiction|reflexivity]).
  unfold s_wc, s_ok, s_rem, s_nwrote, s_fatal, effective.
  destruct (s_direct c); [|auto]. destruct (fin c); [auto|].
  cbn [taken]. rewrite Nat.min_0_l, Nat.sub_0_r, Hl, Ht. auto.
Qed.

Lemma send_res_calm c d k p : d <> [] -> transient k = true ->
  send_res c d k p = send_res c d (Accept 0) p.
Proof.
  intros Hd Ht. destruct (s_calm c d k Hd Ht) as (H1 & H2 & H3).
  unfold send_res, s_q, s_hw, s_queue, s_rem. rewrite H1, H2, H3. reflexivity.
Qed.

(* when sendInLoop does not write directly (something is queued, or write interest is on) the
   kernel is not asked at all *)
Lemma send_res_indirect c d k k' p : s_direct c = false -> send_res c d k p = send_res c d k' p.
Proof.
  intros H. unfold send_res, s_q, s_hw, s_wc, s_queue, s_rem, s_nwrote, s_fatal, s_ok. rewrite H. reflexivity.
Qed.

(* ---- one step ----------------------------------------------------------------------------- *)
Lemma run_one c o c' e : step c o = Ok (c', e) -> run c [o] = Ok (c', e ++ []).
Proof. intros H. cbn [run]. rewrite H. reflexivity. Qed.

Lemma step_calm c o c' e : step c o = Ok (c', e) -> env_ok c o ->
  exists e', run c (calm o) = Ok (c', e') /\ quiet e' = quiet e.
Proof.
  intros H Henv.
  destruct (faultless o) eqn:Ef.
  { rewrite (calm_idem o Ef). eexists. split; [apply run_one, H|]. rewrite app_nil_r. reflexivity. }
  destruct o; try discriminate Ef; cbn [faultless] in Ef; try apply negb_false_iff in Ef;
    cbn [calm]; rewrite ?Ef.
  - (* Send *)
    unfold step in H. cbn [user_op andb] in H.
    destruct (cstate_eqb (st c) Connecting) eqn:Ec; [discriminate|].
    assert (Hres : send_res c d k (pending c) = send_res c d (Accept 0) (pending c)).
    { destruct d as [|b d].
      - cbn [env_ok] in Henv. change (negb (writing c) && (length (outb c) =? 0)) with (s_direct c) in Henv.
        destruct (s_direct c) eqn:Hd; [congruence|]. apply send_res_indirect, Hd.
      - apply send_res_calm; [discriminate|exact Ef]. }
    cbn [run]. unfold step. cbn [user_op andb]. rewrite Ec.
    destruct (cstate_eqb (st c) Connected) eqn:Es; unfold ok in *.
    + rewrite sendInLoop_nf' in *.
      destruct (cstate_eqb (st c) Disconnected) eqn:Ed; injection H as <- <-.
      * eexists. split; reflexivity.
      * rewrite Hres. eexists. split; [reflexivity|]. rewrite app_nil_r, !quiet_s_evs. reflexivity.
    + injection H as <- <-. eexists. split; reflexivity.
  - (* RunOne *)
    unfold step in H. cbn [user_op andb] in H. cbn [env_ok] in Henv.
    cbn [run]. unfold step. cbn [user_op andb].
    destruct (pending c) as [|f rest] eqn:Ep.
    + injection H as <- <-. eexists. split; reflexivity.
    + destruct f;
        try (unfold run_functor in *; rewrite H; eexists; split;
             [reflexivity|rewrite app_nil_r; reflexivity]).
      rewrite runone_send_nf in *.
        destruct (cstate_eqb (st c) Disconnected) eqn:Ed; injection H as <- <-.
      * eexists. split; reflexivity.
      * destruct d as [|b d]; [congruence|].
        rewrite (send_res_calm c (b :: d) k rest) by (discriminate || exact Ef).
        eexists. split; [reflexivity|]. rewrite app_nil_r, !quiet_s_evs. reflexivity.
  - (* EvWritable *)
    unfold step in H. cbn [user_op andb] in H. destruct (registered c); [|discriminate].
    unfold ok in H. rewrite handleWrite_nf in H.
    assert (Ha : h_act c k = false).
    { destruct k as [| |er]; try discriminate. unfold h_act, h_n, effective.
      destruct (fin c); cbn; apply andb_false_r. }
    rewrite Ha in H. injection H as <- <-. exists []. split; [reflexivity|].
    destruct (writing c); reflexivity.
  - (* EvReadErr *)
    unfold step in H. cbn [user_op andb] in H. destruct (rd_chan c && registered c); [|discriminate].
    injection H as <- <-. exists []. split; reflexivity.
  - (* EvError *)
    unfold step in H. cbn [user_op andb] in H.
    destruct ((rd_chan c || writing c) && registered c); [|discriminate].
    injection H as <- <-. exists []. split; reflexivity.
Qed.

(* ---- whole histories ---------------------------------------------------------------------- *)
Lemma run_app a : forall c b,
  run c (a ++ b) =
  match run c a with
  | Ok (c1, e1) =>
      match run c1 b with
      | Ok (c2, e2) => Ok (c2, e1 ++ e2)
      | Rejected => Rejected
      | Fault => Fault
      end
  | Rejected => Rejected
  | Fault => Fault
  end.
Proof.
  induction a as [|o a IH]; intros c b; cbn [app run].
  - destruct (run c b) as [[c2 e2]| |]; reflexivity.
  - destruct (step c o) as [[c1 e1]| |]; try reflexivity.
    rewrite IH. destruct (run c1 a) as [[c2 e2]| |]; try reflexivity.
    destruct (run c2 b) as [[c3 e3]| |]; try reflexivity. rewrite app_assoc. reflexivity.
Qed.

(* C11, connection part: a history with transient faults (EAGAIN, EINTR, any other non-fatal
   errno on write; a failed read; POLLERR) ends in exactly the same state - every field,
   ghost streams and queues included - and with the same user-visible events as the same
   history with the faults removed; only the error log differs *)
Theorem fault_transparent : forall ops c c' e,
  run c ops = Ok (c', e) -> env_ok_run c ops ->
  exists e', run c (flat_map calm ops) = Ok (c', e') /\ quiet e' = quiet e /\
             forallb faultless (flat_map calm ops) = true.
Proof.
  induction ops as [|o ops IH]; intros c c' e H Henv.
  - cbn in *. injection H as <- <-. eexists. repeat split.
  - apply run_cons in H as (c1 & e1 & e2 & H1 & H2 & ->).
    cbn [env_ok_run] in Henv. destruct Henv as [Ho Hr]. rewrite H1 in Hr.
    destruct (step_calm c o c1 e1 H1 Ho) as (e1' & Hc1 & Hq1).
    destruct (IH c1 c' e2 H2 Hr) as (e2' & Hc2 & Hq2 & Hf2).
    cbn [flat_map]. rewrite run_app, Hc1, Hc2. eexists. split; [reflexivity|]. split.
    + rewrite !quiet_app, Hq1, Hq2. reflexivity.
    + rewrite forallb_app, calm_faultless, Hf2. reflexivity.
Qed.

(* a non-fatal write error loses nothing: sendInLoop queues the whole block behind the backlog
   (and arms write interest), handleWrite changes nothing at all *)
Theorem write_fault_keeps_backlog :
  (forall c o c' e d k p, step c o = Ok (c', e) -> send_of c o = Some (d, k, p) ->
     transient k = true -> fin c = false ->
     wire c' = wire c /\ outb c' = outb c ++ d /\ accepted c' = accepted c ++ d /\
     (d <> [] -> writing c' = true) /\
     (pending c' = p \/ exists n, pending c' = p ++ [FHighWater n])) /\
  (forall c k c' e, step c (EvWritable k) = Ok (c', e) -> transient k = true ->
     c' = c /\ quiet e = []).
Proof.
  split.
  - intros c o c' e d k p H Hs Ht Hf.
    destruct k as [| |er]; try discriminate. cbn in Ht. apply negb_true_iff in Ht.
    assert (Hn : s_nwrote c d (Err er) = 0).
    { unfold s_nwrote, effective. rewrite Hf. destruct (s_direct c); reflexivity. }
    assert (Hft : s_fatal c (Err er) = false).
    { unfold s_fatal, effective. rewrite Hf, Ht. destruct (s_direct c); reflexivity. }
    assert (Hok : s_ok c (Err er) = false).
    { unfold s_ok, effective. rewrite Hf. destruct (s_direct c); reflexivity. }
    destruct (step_send c o c' e d (Err er) p H Hs) as (Hp & Ho & Hw & _).
    pose proof (step_accepted c o c' e H) as Ha. unfold block_taken in Ha.
    rewrite Hs, send_fatal_eq, Hft in Ha.
    rewrite (s_outb_nf c d (Err er) Hft), Hn in Ho. cbn [skipn firstn] in *.
    rewrite Hn in Hw. cbn [firstn] in Hw. rewrite app_nil_r in Hw.
    split; [exact Hw|]. split; [exact Ho|]. split; [exact Ha|]. split.
    + intros Hd. rewrite (step_send_writing c o c' e d (Err er) p H Hs).
      unfold s_queue, s_rem. rewrite Hft, Hn, Nat.sub_0_r. destruct d; [contradiction|reflexivity].
    + unfold s_q, s_wc in Hp. rewrite Hok in Hp. cbn [andb app] in Hp.
      destruct (s_hw c d (Err er)); [right; eauto|left]. rewrite Hp. apply app_nil_r.
  - intros c k c' e H Ht. unfold step in H. cbn [user_op andb] in H.
    destruct (registered c); [|discriminate]. unfold ok in H. rewrite handleWrite_nf in H.
    assert (Ha : h_act c k = false).
    { destruct k as [| |er]; try discriminate. unfold h_act, h_n, effective.
      destruct (fin c); cbn; apply andb_false_r. }
    rewrite Ha in H. injection H as <- <-. split; [reflexivity|]. destruct (writing c); reflexivity.
Qed.

(* a failed read and a POLLERR change no field; they are only logged *)
Theorem read_fault_untouched : forall c c' e,
  (step c EvReadErr = Ok (c', e) -> c' = c /\ e = [EvErrorLogged]) /\
  (step c EvError = Ok (c', e) -> c' = c /\ e = [EvErrorLogged]).
Proof.
  intros c c' e. split; intros H; unfold step in H; cbn [user_op andb] in H.
  - destruct (rd_chan c && registered c); [|discriminate]. injection H as <- <-. auto.
  - destruct ((rd_chan c || writing c) && registered c); [|discriminate]. injection H as <- <-. auto.
Qed.

(* why [env_ok] is needed: the one place where the model distinguishes a transient error from
   "nothing written" is the zero-length write of an empty block, where the error suppresses the
   write-complete callback (TcpConnection.cc: the callback is queued inside `if (nwrote >= 0)`) *)
Theorem empty_block_fault_visible :
  exists c c1 c2 e1 e2, reach c /\
    step c (RunOne (Err EAGAIN)) = Ok (c1, e1) /\ step c (RunOne (Accept 0)) = Ok (c2, e2) /\
    pending c1 = [] /\ pending c2 = [FWriteComplete].
Proof.
  destruct (run (init 4%N true true) [Establish; FSendCheck 1; FSendEnq 1 []]) as [[c e]| |] eqn:E;
    try (vm_compute in E; discriminate).
  exists c. assert (Hr : reach c) by (eapply run_reach; [apply reach_init|exact E]).
  vm_compute in E. injection E as <- _. eexists _, _, _, _. split; [exact Hr|].
  vm_compute. repeat split.
Qed.

(* ... and the same for the DIRECT zero-length write of a loop-thread send(""): this is why [env_ok]
   also speaks about [Send [] k] when nothing is queued (REVIEW_C item 4: the earlier [calm] erased the
   user's call instead) *)
Theorem empty_send_fault_visible :
  exists c c1 c2 e1 e2, reach c /\
    step c (Send [] (Err EAGAIN)) = Ok (c1, e1) /\ step c (Send [] (Accept 0)) = Ok (c2, e2) /\
    pending c1 = [] /\ pending c2 = [FWriteComplete].
Proof.
  destruct (run (init 4%N true true) [Establish]) as [[c e]| |] eqn:E;
    try (vm_compute in E; discriminate).
  exists c. assert (Hr : reach c) by (eapply run_reach; [apply reach_init|exact E]).
  vm_compute in E. injection E as <- _. eexists _, _, _, _. split; [exact Hr|].
  vm_compute. repeat split.
Qed.

(* non-vacuity: a history with faults at every injection site of a connection, and its calmed
   version; both end in the same state *)
Definition ex_faulty : list op :=
  [ Establish;
    Send [x61; x62; x63] (Err EINTR);          (* nothing written: whole block queued *)
    EvWritable (Err EAGAIN); EvError; EvReadErr;
    FSendCheck 2; FSendEnq 2 [x64];
    RunOne (Err EOTHER);                       (* queued behind the backlog *)
    EvWritable (Accept 2);
    Send [] (Err EAGAIN);
    EvWritable AcceptAll; RunOne (Err EINTR); RunOne AcceptAll ].

Example ex_faulty_calm :
  flat_map calm ex_faulty =
  [ Establish; Send [x61; x62; x63] (Accept 0); FSendCheck 2; FSendEnq 2 [x64];
    RunOne (Accept 0); EvWritable (Accept 2); Send [] (Accept 0); EvWritable AcceptAll; RunOne (Accept 0);
    RunOne AcceptAll ].
Proof. reflexivity. Qed.

Example ex_faulty_run :
  exists c e e', run (init 4%N true true) ex_faulty = Ok (c, e) /\
    run (init 4%N true true) (flat_map calm ex_faulty) = Ok (c, e') /\
    wire c = [x61; x62; x63; x64] /\ outb c = [] /\
    quiet e = [EvUp; EvHWM 4; EvWC] /\ quiet e' = [EvUp; EvHWM 4; EvWC] /\ env_ok_run (init 4%N true true) ex_faulty.
Proof. vm_compute. eexists _, _, _. repeat split. Qed.


(* the definitions used in Properties_C11, unfolded *)
Lemma transient_unfold : forall k, transient k = match k with Err e => negb (is_fatal e) | _ => false end.
Proof. reflexivity. Qed.

Lemma calm_unfold : forall o,
  calm o =
  match o with
  | Send d k => if transient k then [Send d (Accept 0)] else [o]
  | RunOne k => if transient k then [RunOne (Accept 0)] else [o]
  | EvWritable k => if transient k then [] else [o]
  | EvReadErr | EvError => []
  | _ => [o]
  end.
Proof. reflexivity. Qed.

Lemma faultless_unfold : forall o,
  faultless o =
  match o with
  | Send _ k | RunOne k | EvWritable k => negb (transient k)
  | EvReadErr | EvError => false
  | _ => true
  end.
Proof. reflexivity. Qed.

Lemma quiet_unfold : forall e,
  quiet e = filter (fun x => match x with EvErrorLogged => false | _ => true end) e.
Proof.
  intros e. unfold quiet. induction e as [|a e IH]; [reflexivity|].
  cbn [filter]. rewrite IH. destruct a; reflexivity.
Qed.

Lemma env_ok_unfold : forall c o,
  env_ok c o =
  match o with
  | RunOne k => match pending c with FSend _ [] :: _ => transient k = false | _ => True end
  | Send [] k => if negb (writing c) && (length (outb c) =? 0) then transient k = false else True
  | _ => True
  end.
Proof. reflexivity. Qed.

Lemma env_ok_run_unfold : forall c ops,
  env_ok_run c ops =
  match ops with
  | [] => True
  | o :: r => env_ok c o /\ match step c o with Ok (c1, _) => env_ok_run c1 r | _ => True end
  end.
Proof. intros c [|o r]; reflexivity. Qed.
