(* C19_BiProofs: both ends calling and serving over one connection, each end's connection going DOWN
   (C19_Sys.bstep).  (a) what each end does is a history of that channel's life cycle (cexec), so the
   DOWN theorems apply to it; (b) the calls made at one end and served at the other form a history of
   the one-directional system (sys_exec) once the other direction, the DOWN labels and what a dead
   connection swallowed are taken out, so C19_SysProofs.end_to_end applies to either direction. *)
From Coq Require Import List ZArith Bool Arith Lia.
From Coq.Strings Require Import Byte.
From Muduo Require Import Base_Bytes C19_Model C19_Proofs C19_DownProofs C19_Wire C19_WireProofs C19_Sys C19_SysProofs.
Import ListNotations.
Local Open Scope Z_scope.

(* ------------------------------------------------------------------ the two halves of a channel *)
Definition cpart (s : state) : state := mkState (next_id s) (outs s) (threads s) None O [].
Definition spart (s : state) : state := mkState 0 [] [] (services s) (next_tok s) (pending s).

Definition client_label (l : label) : bool :=
  match l with LFetch _ _ | LRegister _ | LSend _ | LResponse _ _ => true | _ => false end.
Definition server_label (l : label) : bool :=
  match l with LRequest _ | LDone _ _ => true | _ => false end.

Lemma step_cpart s l s' ev :
  client_label l = true -> step s l = Some (s', ev) ->
  step (cpart s) l = Some (cpart s', ev) /\ spart s' = spart s.
Proof.
  intros Hc H. destruct l as [t c|t|t|i b|r|k m|i]; try discriminate.
  - pose proof (step_fetch_contract _ _ _ _ _ H) as Hic. pose proof (step_fetch _ _ _ _ _ H) as (Hg & -> & ->).
    split; [|reflexivity]. unfold step. cbn [step_gen orb cpart threads next_id]. rewrite Hic, Hg. reflexivity.
  - pose proof (step_register _ _ _ _ H) as (i & c & Hg & -> & ->).
    split; [|reflexivity]. unfold step. cbn [step_gen cpart threads]. rewrite Hg. reflexivity.
  - pose proof (step_send _ _ _ _ H) as (i & c & Hg & -> & ->).
    split; [|reflexivity]. unfold step. cbn [step_gen cpart threads]. rewrite Hg. reflexivity.
  - pose proof (step_response _ _ _ _ _ H) as (Hb & [(c & Hl & -> & ->)|(Hl & -> & ->)]).
    + split; [|reflexivity]. change (cpart s) with (mkState (next_id s) (outs s) (threads s) None O []).
      rewrite (step_response_hit _ i b c) by (cbn; assumption). reflexivity.
    + split; [|reflexivity]. rewrite (step_response_miss (cpart s) i b) by (cbn; assumption). reflexivity.
Qed.

Lemma step_spart s l s' ev :
  server_label l = true -> step s l = Some (s', ev) ->
  step (spart s) l = Some (spart s', ev) /\ cpart s' = cpart s.
Proof.
  intros Hc H. destruct l as [t c|t|t|i b|r|k m|i]; try discriminate.
  - pose proof (step_request _ _ _ _ H) as [(e & Hr & -> & ->)|(q & Hr & -> & ->)];
      (split; [|reflexivity]); unfold step; cbn [step_gen spart services]; rewrite Hr; reflexivity.
  - pose proof (step_done _ _ _ _ _ H) as (i & Hl & -> & ->).
    split; [|reflexivity]. unfold step. cbn [step_gen spart pending]. rewrite Hl. reflexivity.
Qed.

Lemma spart_drop_outs s : spart (drop_outs s) = spart s. Proof. reflexivity. Qed.

Section Bi.
  Variable wire_of : bytes -> bytes.
  Variable content_of : bytes -> payload.
  Hypothesis user_roundtrip : forall m, content_of (wire_of m) = Valid m.

  Notation bstep_ := (bstep wire_of content_of).
  Notation bexec_ := (bexec wire_of content_of).
  Notation arrives := (arrives_as wire_of content_of).

  (* ---------------------------------------------------------------- one step *)
  (* every step is a cstep of the acting end; the frames it wrote go to the other end; a delivery pops the head *)
  Lemma bstep_inv y l y' st :
    bstep_ y l = Some (y', st) ->
    let w := bs_side st in
    cstep (bend y w) (bs_label st) = Some (bend y' w, bs_events st) /\
    bend y' (other w) = bend y (other w) /\
    binq y' (other w) = binq y (other w) ++ frames (bs_events st) /\
    match l with
    | BCall w' l0 => w' = w /\ bs_label st = CL l0 /\ binq y' w = binq y w /\
                     ((exists t c, l0 = LFetch t c) \/ (exists t, l0 = LRegister t) \/ (exists t, l0 = LSend t))
    | BDeliver w' => w' = w /\ exists e q, binq y w = e :: q /\ binq y' w = q /\
                     ((exists i svc meth req r, e = ESendRequest i svc meth req /\ arrives e = Some (LRequest r) /\ bs_label st = CL (LRequest r)) \/
                      (exists i rp j b, e = ESendResponse i rp /\ arrives e = Some (LResponse j b) /\ bs_label st = CL (LResponse j b)))
    | BDone w' k m => w' = w /\ bs_label st = CL (LDone k m) /\ binq y' w = binq y w
    | BDown w' => w' = w /\ bs_label st = CDown /\ binq y' w = binq y w /\ frames (bs_events st) = []
    end.
  Proof.
    destruct l as [w l0|w|w k m|w]; cbn [bstep].
    - destruct l0 as [t c|t|t|i b|r|k m|i]; try discriminate;
        (destruct (cstep (bend y w) _) as [[c' ev]|] eqn:E; [|discriminate]); intros H; inversion H; subst; cbn [bs_side bs_label bs_events];
        destruct w; cbn [bend binq bupd other ea eb toa tob]; repeat split; eauto.
    - destruct (binq y w) as [|e q] eqn:Eq; [discriminate|].
      destruct e as [? ? ?|? ? ?|i svc meth req|? ?|?|?|? ? ? ? ?|i rp|?|?]; try discriminate.
      + destruct (arrives (ESendRequest i svc meth req)) as [[t c|t|t|j b|r|k m|j]|] eqn:Ea; try discriminate.
        destruct (cstep (bend y w) (CL (LRequest r))) as [[c' ev]|] eqn:E; [|discriminate]. intros H; inversion H; subst; cbn [bs_side bs_label bs_events].
        destruct w; cbn [bend binq bupd other ea eb toa tob] in *; repeat split; auto; exists (ESendRequest i svc meth req), q; repeat split; auto; left; eauto 10.
      + destruct (arrives (ESendResponse i rp)) as [[t c|t|t|j b|r|k m|j]|] eqn:Ea; try discriminate.
        destruct (cstep (bend y w) (CL (LResponse j b))) as [[c' ev]|] eqn:E; [|discriminate]. intros H; inversion H; subst; cbn [bs_side bs_label bs_events].
        destruct w; cbn [bend binq bupd other ea eb toa tob] in *; repeat split; auto; exists (ESendResponse i rp), q; repeat split; auto; right; eauto 10.
    - destruct (cstep (bend y w) (CL (LDone k m))) as [[c' ev]|] eqn:E; [|discriminate]. intros H; inversion H; subst; cbn [bs_side bs_label bs_events].
      destruct w; cbn [bend binq bupd other ea eb toa tob]; repeat split; auto.
    - destruct (cstep (bend y w) CDown) as [[c' ev]|] eqn:E; [|discriminate]. intros H; inversion H; subst; cbn [bs_side bs_label bs_events].
      assert (frames ev = []) as Hf.
      { unfold cstep in E. cbn [cstep_gen] in E. destruct (up (bend y w)); [|discriminate]. destruct (owned (bend y w)); inversion E; subst; [|reflexivity].
        clear. induction (outs (core (bend y w))) as [|[j d] r IH]; [reflexivity|].
        unfold dtor_events. cbn [flat_map]. fold (dtor_events r). unfold frames in *. rewrite filter_app, IH, app_nil_r. cbn [snd].
        destruct (c_resp d), (c_done d); reflexivity. }
      rewrite Hf. destruct w; cbn [bend binq bupd other ea eb toa tob]; rewrite ?app_nil_r; repeat split; auto.
  Qed.

  Lemma bexec_cons y l r y'' tr :
    bexec_ y (l :: r) = Some (y'', tr) ->
    exists y' st tr', bstep_ y l = Some (y', st) /\ bexec_ y' r = Some (y'', tr') /\ tr = (l, st) :: tr'.
  Proof.
    cbn [bexec]. destruct (bstep_ y l) as [[y' st]|] eqn:E1; [|discriminate].
    destruct (bexec_ y' r) as [[y3 tr']|] eqn:E2; [|discriminate].
    intros H; inversion H; subst. exists y', st, tr'. auto.
  Qed.

  Lemma bexec_snoc ls : forall y l y2 tr2,
    bexec_ y (ls ++ [l]) = Some (y2, tr2) ->
    exists y1 tr1 st, bexec_ y ls = Some (y1, tr1) /\ bstep_ y1 l = Some (y2, st) /\ tr2 = tr1 ++ [(l, st)].
  Proof.
    induction ls as [|l0 r IH]; intros y l y2 tr2 H.
    - cbn [app] in H. apply bexec_cons in H. destruct H as (y' & st & tr' & Hs & He & ->). inversion He; subst.
      exists y, [], st. auto.
    - cbn [app] in H. apply bexec_cons in H. destruct H as (y' & st & tr' & Hs & He & ->).
      destruct (IH _ _ _ _ He) as (y1 & tr1 & st1 & H1 & Hs1 & ->).
      exists y1, ((l0, st) :: tr1), st1. cbn [bexec]. rewrite Hs, H1. auto.
  Qed.

  Lemma bexec_labels ls : forall y y' tr, bexec_ y ls = Some (y', tr) -> map fst tr = ls.
  Proof.
    induction ls as [|l r IH]; intros y y' tr H.
    - inversion H. reflexivity.
    - apply bexec_cons in H. destruct H as (y1 & st & tr' & _ & He & ->). cbn [map fst]. f_equal. eauto.
  Qed.

  (* ---------------------------------------------------------------- (a) each end's own history *)
  Lemma cexec_snoc_intro c ls c1 tr1 l c2 ev :
    cexec c ls = Some (c1, tr1) -> cstep c1 l = Some (c2, ev) -> cexec c (ls ++ [l]) = Some (c2, tr1 ++ [(l, ev)]).
  Proof.
    revert c tr1. induction ls as [|l0 r IH]; intros c tr1 H1 Hs.
    - inversion H1; subst. cbn [app cexec]. rewrite Hs. reflexivity.
    - apply cexec_cons in H1. destruct H1 as (c' & ev0 & tr' & Hs0 & He & ->).
      cbn [app cexec]. rewrite Hs0. rewrite (IH _ _ He Hs). reflexivity.
  Qed.

  Lemma bproj_app w a b : bproj w (a ++ b) = bproj w a ++ bproj w b.
  Proof. unfold bproj. apply flat_map_app. Qed.

  Lemma end_history ls : forall y y' tr w,
    bexec_ y ls = Some (y', tr) ->
    cexec (bend y w) (map fst (bproj w tr)) = Some (bend y' w, bproj w tr).
  Proof.
    induction ls as [|l ls IH] using rev_ind; intros y y' tr w H.
    - inversion H; subst. reflexivity.
    - apply bexec_snoc in H. destruct H as (y1 & tr1 & st & H1 & Hs & ->).
      pose proof (IH _ _ _ w H1) as Hw. rewrite bproj_app, map_app.
      destruct (bstep_inv _ _ _ _ Hs) as (Hc & Ho & _).
      unfold bproj at 2 4. cbn [flat_map snd]. rewrite !app_nil_r.
      destruct (bs_side st) eqn:Es, w; cbn [map fst app other] in *; rewrite ?app_nil_r; try (eapply cexec_snoc_intro; eauto; fail);
        try (rewrite Ho; exact Hw).
  Qed.
  (* ---------------------------------------------------------------- (b) one direction of the conversation *)
  Definition is_req (e : event) : bool := match e with ESendRequest _ _ _ _ => true | _ => false end.
  Definition is_resp (e : event) : bool := match e with ESendResponse _ _ => true | _ => false end.
  Definition reqs (l : list event) : list event := filter is_req l.
  Definition resps (l : list event) : list event := filter is_resp l.

  Definition side_eqb (a b : side) : bool := match a, b with SA, SA | SB, SB => true | _, _ => false end.
  Lemma side_eqb_true a b : side_eqb a b = true <-> a = b.
  Proof. destruct a, b; cbn; split; congruence. Qed.
  Lemma side_cases a w : a = w \/ a = other w.
  Proof. destruct a, w; auto. Qed.
  Lemma other_neq w : other w <> w. Proof. destruct w; discriminate. Qed.
  Lemma other_other w : other (other w) = w. Proof. destruct w; reflexivity. Qed.

  (* the system label of the direction "calls made at w, served at the other end" that a step stands for *)
  Definition sub_label (w : side) (p : blabel * bstep_rec) : list slabel :=
    let a := bs_side (snd p) in
    match bs_label (snd p) with
    | CL (LFetch t c) => if side_eqb a w then [SCall (LFetch t c)] else []
    | CL (LRegister t) => if side_eqb a w then [SCall (LRegister t)] else []
    | CL (LSend t) => if side_eqb a w then [SCall (LSend t)] else []
    | CL (LResponse _ _) => if side_eqb a w then [SResp] else []
    | CL (LRequest _) => if side_eqb a (other w) then [SReq] else []
    | CL (LDone k m) => if side_eqb a (other w) then [SDone k m] else []
    | _ => []
    end.
  Definition sub_labels (w : side) (tr : btrace) : list slabel := flat_map (sub_label w) tr.

  Definition subsys_rel (w : side) (y : bsys) (z : sys) : Prop :=
    (exists s, cl z = cpart s /\
               (core (bend y w) = s \/
                (up (bend y w) = false /\ owned (bend y w) = true /\ core (bend y w) = drop_outs s))) /\
    sv z = spart (core (bend y (other w))) /\
    (exists xc, c2s z = reqs (binq y (other w)) ++ xc /\ (up (bend y w) = true -> xc = [])) /\
    (exists xs, s2c z = resps (binq y w) ++ xs /\ (up (bend y (other w)) = true -> xs = [])).

  Lemma frames_reqs_send i svc meth req : reqs (frames [ESendRequest i svc meth req]) = [ESendRequest i svc meth req] /\
                                          resps (frames [ESendRequest i svc meth req]) = [].
  Proof. split; reflexivity. Qed.

  Lemma reqs_app a b : reqs (a ++ b) = reqs a ++ reqs b. Proof. apply filter_app. Qed.
  Lemma resps_app a b : resps (a ++ b) = resps a ++ resps b. Proof. apply filter_app. Qed.

  (* the events of a step of the plain channel, by label kind *)
  Lemma client_step_frames s l s' ev :
    client_label l = true -> step s l = Some (s', ev) ->
    resps (frames ev) = [] /\ reqs (frames ev) = frames ev /\
    ((exists t, l = LSend t) \/ frames ev = []).
  Proof.
    intros Hc H. destruct l as [t c|t|t|i b|r|k m|i]; try discriminate.
    - apply step_fetch in H. destruct H as (_ & _ & ->). repeat split; auto.
    - apply step_register in H. destruct H as (i & c & _ & _ & ->). repeat split; auto.
    - apply step_send in H. destruct H as (i & c & _ & _ & ->). repeat split; eauto.
    - apply step_response in H. destruct H as (_ & [(c & _ & _ & ->)|(_ & _ & ->)]); [|repeat split; auto].
      unfold complete. destruct (c_resp c), (c_done c); repeat split; auto.
  Qed.

  Lemma server_step_frames s l s' ev :
    server_label l = true -> step s l = Some (s', ev) ->
    reqs (frames ev) = [] /\ resps (frames ev) = frames ev /\ run_tags ev = [] /\ del_tags ev = [].
  Proof.
    intros Hc H. destruct l as [t c|t|t|i b|r|k m|i]; try discriminate.
    - apply step_request in H. destruct H as [(e & _ & _ & ->)|(q & _ & _ & ->)]; repeat split; auto.
    - apply step_done in H. destruct H as (i & _ & _ & ->). repeat split; auto.
  Qed.

  (* a step of the life-cycle machine is a step of the plain channel on its core; what is seen of it *)
  Lemma cstep_plain c l c' ev :
    cstep c (CL l) = Some (c', ev) ->
    exists ev0, step (core c) l = Some (core c', ev0) /\ up c' = up c /\ owned c' = owned c /\
      (up c = true -> ev = ev0) /\
      (up c = false -> allowed (owned c) l /\ frames ev = [] /\ run_tags ev = [] /\ del_tags ev = [] /\
                       run_tags ev0 = [] /\ del_tags ev0 = [] /\
                       (forall e, is_frame e = false -> In e ev0 -> In e ev)).
  Proof.
    unfold cstep. cbn [cstep_gen]. destruct c as [s u o]. cbn [up owned core]. destruct u.
    - unfold lift. fold (step s l). destruct (step s l) as [[s' ev0]|] eqn:E; [|discriminate].
      intros H; inversion H; subst. cbn [core up owned]. exists ev. repeat split; auto; congruence.
    - destruct l as [t d|t|t|i b|r|k m|i]; try discriminate.
      + destruct o; [discriminate|]. unfold lift. fold (step s (LFetch t d)). destruct (step s (LFetch t d)) as [[s' ev0]|] eqn:E; [|discriminate].
        intros H; inversion H; subst. cbn [core up owned]. exists ev. pose proof (step_fetch _ _ _ _ _ E) as (_ & _ & ->).
        repeat split; auto; try discriminate.
      + destruct o; [discriminate|]. unfold lift. fold (step s (LRegister t)). destruct (step s (LRegister t)) as [[s' ev0]|] eqn:E; [|discriminate].
        intros H; inversion H; subst. cbn [core up owned]. exists ev. pose proof (step_register _ _ _ _ E) as (i & d & _ & _ & ->).
        repeat split; auto; try discriminate.
      + destruct o; [discriminate|]. unfold quiet. fold (step s (LSend t)). destruct (step s (LSend t)) as [[s' ev0]|] eqn:E; [|discriminate].
        intros H; inversion H; subst. cbn [core up owned]. exists ev0. pose proof (step_send _ _ _ _ E) as (i & d & _ & _ & ->).
        repeat split; auto; try discriminate. intros e He [<-|[]]. discriminate.
      + unfold quiet. fold (step s (LDone k m)). destruct (step s (LDone k m)) as [[s' ev0]|] eqn:E; [|discriminate].
        intros H; inversion H; subst. cbn [core up owned]. exists ev0. pose proof (step_done _ _ _ _ _ E) as (i & _ & _ & ->).
        repeat split; auto; try discriminate; try (destruct o; reflexivity). intros e He [<-|[]]. discriminate.
  Qed.

  Lemma run_tags_dtor m : run_tags (dtor_events m) = [].
  Proof.
    induction m as [|[j d] r IH]; [reflexivity|]. unfold dtor_events. cbn [flat_map]. fold (dtor_events r).
    rewrite run_tags_app, IH, app_nil_r. cbn [snd]. destruct (c_resp d), (c_done d); reflexivity.
  Qed.
  Notation sstep_ := (sys_step wire_of content_of).
  Notation sexec_ := (sys_exec wire_of content_of).

  Definition step_corr (w : side) (st : bstep_rec) (trzs : strace) (y : bsys) : Prop :=
    let evw := if side_eqb (bs_side st) w then bs_events st else [] in
    let evo := if side_eqb (bs_side st) (other w) then bs_events st else [] in
    (forall e, is_frame e = false -> In e (events (cproj trzs)) -> In e evw) /\
    (forall e, is_frame e = false -> In e (events (sproj trzs)) -> In e evo) /\
    run_tags evw = run_tags (events (cproj trzs)) /\
    (up (bend y w) = true -> del_tags evw = del_tags (events (cproj trzs))) /\
    (forall tg sn, In (ERun tg sn) evw -> In (ERun tg sn) (events (cproj trzs))).

  Lemma no_run ev tg sn : run_tags ev = [] -> In (ERun tg sn) ev -> False.
  Proof.
    intros H Hin. assert (In tg (run_tags ev)) as Ht by (unfold run_tags; apply in_flat_map; exists (ERun tg sn); split; [exact Hin|left; reflexivity]).
    rewrite H in Ht. destruct Ht.
  Qed.

  Ltac fin := repeat split; auto; try (intros e _ []); try congruence;
              try (intros tg sn Hr; first [destruct Hr | exfalso; eapply no_run; [|exact Hr]; eauto]).

  Lemma side_eqb_refl a : side_eqb a a = true. Proof. destruct a; reflexivity. Qed.
  Lemma side_eqb_other a : side_eqb a (other a) = false /\ side_eqb (other a) a = false. Proof. destruct a; split; reflexivity. Qed.

  (* one step of the two-way system = at most one step of the direction "calls at w, served at the other end" *)
  Lemma sim_step w y1 z1 l y st :
    bstep_ y1 l = Some (y, st) -> subsys_rel w y1 z1 ->
    exists z trzs, sexec_ z1 (sub_label w (l, st)) = Some (z, trzs) /\ subsys_rel w y z /\ step_corr w st trzs y.
  Proof.
    intros Hs (R1 & R2 & (xc & R3 & R3u) & (xs & R4 & R4u)).
    destruct (bstep_inv _ _ _ _ Hs) as (Hc & Ho & Hq & Hl). cbv zeta in Hc, Ho, Hq, Hl.
    unfold sub_label, step_corr. cbn [snd fst].
    set (a := bs_side st) in *. set (ev := bs_events st) in *.
    destruct (bs_label st) as [l0|] eqn:Elab.
    2:{ (* ---- DOWN of end a: no step of the direction ---- *)
      exists z1, []. split; [reflexivity|].
      assert (binq y a = binq y1 a /\ frames ev = []) as [Hqa Hf].
      { destruct l as [w' l0|w'|w' k m|w']; try (destruct Hl as (_ & E & _); discriminate).
        - destruct Hl as (_ & e & q & _ & _ & [(? & ? & ? & ? & ? & _ & _ & E)|(? & ? & ? & ? & _ & _ & E)]); discriminate.
        - destruct Hl as (_ & _ & A & B). auto. }
      rewrite Hf, app_nil_r in Hq.
      unfold cstep in Hc. cbn [cstep_gen] in Hc. destruct (up (bend y1 a)) eqn:Eu; [|discriminate].
      assert (up (bend y a) = false /\ owned (bend y a) = owned (bend y1 a) /\
              core (bend y a) = (if owned (bend y1 a) then drop_outs (core (bend y1 a)) else core (bend y1 a)) /\
              run_tags ev = []) as (Hu' & Hw' & Hcore & Hrun).
      { destruct (owned (bend y1 a)) eqn:Eo; injection Hc as E1 E2; rewrite <- E1, <- E2; cbn [up owned core]; repeat split; auto.
        apply run_tags_dtor. }
      destruct (side_cases a w) as [Ea|Ea].
      - (* the calling end goes down *)
        rewrite Ea in *. split; [|rewrite side_eqb_refl, (proj1 (side_eqb_other w)); cbn [events cproj sproj flat_map]; fin; rewrite Hu'; discriminate].
        split.
        + destruct R1 as (s & Rc & [Rs|(Ru & _)]); [|congruence]. exists s. split; [exact Rc|].
          rewrite Hcore, Hw', Hu'. destruct (owned (bend y1 w)); [right; rewrite Rs; auto|left; exact Rs].
        + split; [rewrite Ho; exact R2|]. split.
          * exists xc. rewrite Hq. split; [exact R3|]. rewrite Hu'. discriminate.
          * exists xs. rewrite Hqa, Ho. split; [exact R4|exact R4u].
      - (* the serving end goes down *)
        rewrite Ea in *. rewrite other_other in *.
        split; [|rewrite (proj2 (side_eqb_other w)), side_eqb_refl; cbn [events cproj sproj flat_map]; fin].
        split; [rewrite Ho; exact R1|]. split.
        + rewrite R2, Hcore. destruct (owned (bend y1 (other w))); reflexivity.
        + split.
          * exists xc. rewrite Hqa, Ho. split; [exact R3|exact R3u].
          * exists xs. rewrite Hq. split; [exact R4|]. rewrite Hu'. discriminate. }
    (* ---- a step of the plain channel at end a ---- *)
    destruct (cstep_plain _ _ _ _ Hc) as (ev0 & Hst & Hup & Hown & Hevu & Hevd).
    assert ((client_label l0 = true /\ ((exists t c, l0 = LFetch t c) \/ (exists t, l0 = LRegister t) \/ (exists t, l0 = LSend t)) /\ binq y a = binq y1 a) \/
            (exists i rp j b q, l0 = LResponse j b /\ binq y1 a = ESendResponse i rp :: q /\ binq y a = q /\ arrives (ESendResponse i rp) = Some (LResponse j b)) \/
            (exists i svc meth req r q, l0 = LRequest r /\ binq y1 a = ESendRequest i svc meth req :: q /\ binq y a = q /\ arrives (ESendRequest i svc meth req) = Some (LRequest r)) \/
            (exists k m, l0 = LDone k m /\ binq y a = binq y1 a)) as Hkind.
    { destruct l as [w' l1|w'|w' k m|w'].
      - destruct Hl as (_ & E & Hqa & Hk). inversion E; subst l1. left. split; [|auto].
        destruct Hk as [(t & c & ->)|[(t & ->)|(t & ->)]]; reflexivity.
      - destruct Hl as (_ & e & q & Hq1 & Hq2 & [(i & svc & meth & req & r & -> & Ha & E)|(i & rp & j & b & -> & Ha & E)]); inversion E; subst l0.
        + right. right. left. exists i, svc, meth, req, r, q. auto.
        + right. left. exists i, rp, j, b, q. auto.
      - destruct Hl as (_ & E & Hqa). inversion E; subst l0. right. right. right. eauto.
      - destruct Hl as (_ & E & _). discriminate. }
    destruct (side_cases a w) as [Ea|Ea].
    - (* ======== the acting end is the calling end w ======== *)
      rewrite Ea in *. rewrite side_eqb_refl, (proj1 (side_eqb_other w)).
      destruct Hkind as [(Hcl & Hk & Hqa)|[(i & rp & j & b & q & -> & Hq1 & Hq2 & Harr)|[(i & svc & meth & req & r & q & -> & Hq1 & Hq2 & Harr)|(k & m & -> & Hqa)]]].
      + (* a CallMethod micro-step at w *)
        destruct R1 as (s & Rc & [Rs|(Ru & Rw & _)]).
        2:{ exfalso. destruct (Hevd Ru) as (Hal & _). rewrite Rw in Hal. destruct Hk as [(t & c & ->)|[(t & ->)|(t & ->)]]; cbn in Hal; discriminate. }
        rewrite Rs in Hst. destruct (step_cpart _ _ _ _ Hcl Hst) as (Hzs & Hsp).
        destruct (client_step_frames _ _ _ _ Hcl Hst) as (Fr1 & Fr2 & _).
        assert (sstep_ z1 (SCall l0) = Some (mkSys (cpart (core (bend y w))) (sv z1) (c2s z1 ++ frames ev0) (s2c z1), mkSS (Some (l0, ev0)) None)) as Hz.
        { cbn [sys_step]. rewrite Rc, Hzs. destruct Hk as [(t & c & ->)|[(t & ->)|(t & ->)]]; reflexivity. }
        assert (sexec_ z1 match l0 with
                          | LFetch t c => [SCall (LFetch t c)] | LRegister t => [SCall (LRegister t)] | LSend t => [SCall (LSend t)]
                          | LResponse _ _ => [SResp] | _ => [] end =
                Some (mkSys (cpart (core (bend y w))) (sv z1) (c2s z1 ++ frames ev0) (s2c z1), [(SCall l0, mkSS (Some (l0, ev0)) None)])) as Hx.
        { destruct Hk as [(t & c & ->)|[(t & ->)|(t & ->)]]; cbn [sys_exec]; rewrite Hz; reflexivity. }
        eexists. eexists. split; [exact Hx|]. split.
        * split; [exists (core (bend y w)); cbn [cl]; auto|]. split; [cbn [sv]; rewrite Ho; exact R2|]. cbn [c2s s2c]. split.
          -- destruct (up (bend y1 w)) eqn:Eu.
             ++ exists []. rewrite app_nil_r, Hq, reqs_app, R3, (R3u eq_refl), app_nil_r, (Hevu eq_refl), Fr2. split; [reflexivity|auto].
             ++ destruct (Hevd eq_refl) as (_ & Hf0 & _). exists (xc ++ frames ev0). rewrite Hq, Hf0, app_nil_r, R3, app_assoc.
                split; [reflexivity|]. rewrite Hup. discriminate.
          -- exists xs. rewrite Hqa, Ho. auto.
        * cbn [cproj sproj flat_map snd ss_cl ss_sv app events]. rewrite app_nil_r.
          destruct (up (bend y1 w)) eqn:Eu.
          -- rewrite (Hevu eq_refl). fin.
          -- destruct (Hevd eq_refl) as (_ & _ & Hr1 & Hd1 & Hr0 & Hd0 & Hinc). fin.
      + (* a RESPONSE frame reaches w *)
        assert (up (bend y1 w) = true) as Eu.
        { destruct (up (bend y1 w)) eqn:Eu; [reflexivity|]. destruct (Hevd eq_refl) as (Hal & _). cbn in Hal. contradiction. }
        destruct R1 as (s & Rc & [Rs|(Ru & _)]); [|congruence].
        rewrite Rs in Hst. destruct (step_cpart _ (LResponse j b) _ _ eq_refl Hst) as (Hzs & Hsp).
        destruct (client_step_frames _ (LResponse j b) _ _ eq_refl Hst) as (_ & _ & [(t & E)|Fr0]); [discriminate|].
        rewrite Hq1 in R4. cbn [resps filter is_resp] in R4. fold (resps q) in R4. cbn [app] in R4.
        assert (sstep_ z1 SResp = Some (mkSys (cpart (core (bend y w))) (sv z1) (c2s z1) (resps q ++ xs), mkSS (Some (LResponse j b, ev0)) None)) as Hz.
        { cbn [sys_step]. rewrite R4, Harr, Rc, Hzs. reflexivity. }
        eexists. eexists. split; [cbn [sys_exec]; rewrite Hz; reflexivity|]. split.
        * split; [exists (core (bend y w)); cbn [cl]; auto|]. split; [cbn [sv]; rewrite Ho; exact R2|]. cbn [c2s s2c]. split.
          -- exists xc. rewrite Hq, (Hevu Eu), Fr0, app_nil_r. split; [exact R3|]. rewrite Hup. exact R3u.
          -- exists xs. rewrite Hq2, Ho. auto.
        * cbn [cproj sproj flat_map snd ss_cl ss_sv app events]. rewrite app_nil_r, (Hevu Eu). fin.
      + (* a REQUEST frame reaches w: the other direction *)
        destruct (server_step_frames _ (LRequest r) _ _ eq_refl Hst) as (Fq & Fp & Frun & Fdel).
        assert (up (bend y1 w) = true) as Eu.
        { destruct (up (bend y1 w)) eqn:Eu; [reflexivity|]. destruct (Hevd eq_refl) as (Hal & _). cbn in Hal. contradiction. }
        exists z1, []. split; [reflexivity|]. split.
        * split.
          -- destruct R1 as (s & Rc & [Rs|(Ru & _)]); [|congruence]. exists (core (bend y w)). split; [|auto].
             rewrite Rs in Hst. destruct (step_spart _ (LRequest r) _ _ eq_refl Hst) as (_ & Hcp). rewrite Rc, Hcp. reflexivity.
          -- split; [rewrite Ho; exact R2|]. split.
             ++ exists xc. rewrite Hq, (Hevu Eu), reqs_app, Fq, app_nil_r. split; [exact R3|]. rewrite Hup. exact R3u.
             ++ exists xs. rewrite Hq2, Ho. rewrite Hq1 in R4. split; [exact R4|exact R4u].
        * cbn [cproj sproj flat_map events]. rewrite (Hevu Eu), Frun, Fdel. fin.
      + (* the service at w completes a request: the other direction *)
        exists z1, []. split; [reflexivity|].
        assert (reqs (frames ev) = [] /\ run_tags ev = [] /\ del_tags ev = []) as (Fq & Frun & Fdel).
        { destruct (up (bend y1 w)) eqn:Eu.
          - rewrite (Hevu eq_refl). destruct (server_step_frames _ (LDone k m) _ _ eq_refl Hst) as (A & _ & B & C). auto.
          - destruct (Hevd eq_refl) as (_ & Hf0 & Hr1 & Hd1 & _). rewrite Hf0. auto. }
        split.
        * split.
          -- destruct R1 as (s & Rc & [Rs|(Ru & Rw & Rs)]).
             ++ exists (core (bend y w)). split; [|auto]. rewrite Rs in Hst. destruct (step_spart _ (LDone k m) _ _ eq_refl Hst) as (_ & Hcp). rewrite Rc, Hcp. reflexivity.
             ++ rewrite Rs in Hst. destruct (step_drop_outs s (LDone k m) _ _ ltac:(discriminate) ltac:(discriminate) ltac:(discriminate) ltac:(discriminate) Hst) as (s0 & Hs0 & Hd0).
                destruct (step_spart _ (LDone k m) _ _ eq_refl Hs0) as (_ & Hcp). exists s0. split; [rewrite Rc, Hcp; reflexivity|].
                right. rewrite Hup, Hown. auto.
          -- split; [rewrite Ho; exact R2|]. split.
             ++ exists xc. rewrite Hq, reqs_app, Fq, app_nil_r. split; [exact R3|]. rewrite Hup. exact R3u.
             ++ exists xs. rewrite Hqa, Ho. auto.
        * cbn [cproj sproj flat_map events]. rewrite Frun, Fdel. fin.
    - (* ======== the acting end is the serving end ======== *)
      rewrite Ea in *. rewrite other_other in *. rewrite (proj2 (side_eqb_other w)), side_eqb_refl.
      destruct Hkind as [(Hcl & Hk & Hqa)|[(i & rp & j & b & q & -> & Hq1 & Hq2 & Harr)|[(i & svc & meth & req & r & q & -> & Hq1 & Hq2 & Harr)|(k & m & -> & Hqa)]]].
      + (* a CallMethod micro-step at the other end: the other direction *)
        exists z1, []. split; [destruct Hk as [(t & c & ->)|[(t & ->)|(t & ->)]]; reflexivity|].
        assert (resps (frames ev) = []) as Fp.
        { destruct (up (bend y1 (other w))) eqn:Eu.
          - rewrite (Hevu eq_refl). destruct (client_step_frames _ _ _ _ Hcl Hst) as (A & _). exact A.
          - destruct (Hevd eq_refl) as (_ & Hf0 & _). rewrite Hf0. reflexivity. }
        split.
        * split; [rewrite Ho; exact R1|]. split.
          -- destruct (step_cpart _ _ _ _ Hcl Hst) as (_ & Hsp). rewrite R2, Hsp. reflexivity.
          -- split.
             ++ exists xc. rewrite Hqa, Ho. auto.
             ++ exists xs. rewrite Hq, resps_app, Fp, app_nil_r. split; [exact R4|]. rewrite Hup. exact R4u.
        * destruct Hk as [(t & c & ->)|[(t & ->)|(t & ->)]]; cbn [cproj sproj flat_map events]; fin.
      + (* a RESPONSE frame reaches the other end: the other direction *)
        assert (up (bend y1 (other w)) = true) as Eu.
        { destruct (up (bend y1 (other w))) eqn:Eu; [reflexivity|]. destruct (Hevd eq_refl) as (Hal & _). cbn in Hal. contradiction. }
        destruct (client_step_frames _ (LResponse j b) _ _ eq_refl Hst) as (_ & _ & [(t & E)|Fr0]); [discriminate|].
        exists z1, []. split; [reflexivity|]. split.
        * split; [rewrite Ho; exact R1|]. split.
          -- destruct (step_cpart _ (LResponse j b) _ _ eq_refl Hst) as (_ & Hsp). rewrite R2, Hsp. reflexivity.
          -- split.
             ++ exists xc. rewrite Hq2, Ho. rewrite Hq1 in R3. auto.
             ++ exists xs. rewrite Hq, (Hevu Eu), Fr0, app_nil_r. split; [exact R4|]. rewrite Hup. exact R4u.
        * cbn [cproj sproj flat_map events]. fin.
      + (* a REQUEST frame reaches the serving end *)
        assert (up (bend y1 (other w)) = true) as Eu.
        { destruct (up (bend y1 (other w))) eqn:Eu; [reflexivity|]. destruct (Hevd eq_refl) as (Hal & _). cbn in Hal. contradiction. }
        destruct (step_spart _ (LRequest r) _ _ eq_refl Hst) as (Hzs & Hcp).
        destruct (server_step_frames _ (LRequest r) _ _ eq_refl Hst) as (Fq & Fp & Frun & Fdel).
        rewrite Hq1 in R3. cbn [reqs filter is_req] in R3. fold (reqs q) in R3. cbn [app] in R3.
        assert (sstep_ z1 SReq = Some (mkSys (cl z1) (spart (core (bend y (other w)))) (reqs q ++ xc) (s2c z1 ++ frames ev0), mkSS None (Some (LRequest r, ev0)))) as Hz.
        { cbn [sys_step]. rewrite R3, Harr, R2, Hzs. reflexivity. }
        eexists. eexists. split; [cbn [sys_exec]; rewrite Hz; reflexivity|]. split.
        * split; [cbn [cl]; rewrite Ho; exact R1|]. split; [reflexivity|]. cbn [c2s s2c]. split.
          -- exists xc. rewrite Hq2, Ho. auto.
          -- exists []. rewrite app_nil_r, Hq, (Hevu Eu), resps_app, Fp, R4, (R4u Eu), app_nil_r. auto.
        * cbn [cproj sproj flat_map snd ss_cl ss_sv app events]. rewrite app_nil_r, (Hevu Eu). fin.
      + (* the service at the serving end completes a request *)
        destruct (step_spart _ (LDone k m) _ _ eq_refl Hst) as (Hzs & Hcp).
        destruct (server_step_frames _ (LDone k m) _ _ eq_refl Hst) as (Fq & Fp & Frun & Fdel).
        assert (sstep_ z1 (SDone k m) = Some (mkSys (cl z1) (spart (core (bend y (other w)))) (c2s z1) (s2c z1 ++ frames ev0), mkSS None (Some (LDone k m, ev0)))) as Hz.
        { cbn [sys_step]. rewrite R2, Hzs. reflexivity. }
        eexists. eexists. split; [cbn [sys_exec]; rewrite Hz; reflexivity|]. split.
        * split; [cbn [cl]; rewrite Ho; exact R1|]. split; [reflexivity|]. cbn [c2s s2c]. split.
          -- exists xc. rewrite Hqa, Ho. auto.
          -- destruct (up (bend y1 (other w))) eqn:Eu.
             ++ exists []. rewrite app_nil_r, Hq, (Hevu eq_refl), resps_app, Fp, R4, (R4u eq_refl), app_nil_r. auto.
             ++ destruct (Hevd eq_refl) as (_ & Hf0 & _). exists (xs ++ frames ev0). rewrite Hq, Hf0, app_nil_r, R4, app_assoc.
                split; [reflexivity|]. rewrite Hup. discriminate.
        * cbn [cproj sproj flat_map snd ss_cl ss_sv app events]. rewrite app_nil_r.
          destruct (up (bend y1 (other w))) eqn:Eu.
          -- rewrite (Hevu eq_refl). fin.
          -- destruct (Hevd eq_refl) as (_ & _ & _ & _ & _ & _ & Hinc). fin.
  Qed.

  (* ---------------------------------------------------------------- whole histories *)
  Lemma sexec_app_intro l1 : forall z z1 t1 l2 z2 t2,
    sexec_ z l1 = Some (z1, t1) -> sexec_ z1 l2 = Some (z2, t2) -> sexec_ z (l1 ++ l2) = Some (z2, t1 ++ t2).
  Proof.
    induction l1 as [|l r IH]; intros z z1 t1 l2 z2 t2 H1 H2.
    - inversion H1; subst. exact H2.
    - cbn [sys_exec] in H1. destruct (sstep_ z l) as [[z' st]|] eqn:E; [|discriminate].
      destruct (sexec_ z' r) as [[z'' tr']|] eqn:E2; [|discriminate]. inversion H1; subst.
      cbn [app sys_exec]. rewrite E, (IH _ _ _ _ _ _ E2 H2). reflexivity.
  Qed.

  Lemma bproj_single w l st :
    cevents (bproj w [(l, st)]) = if side_eqb (bs_side st) w then bs_events st else [].
  Proof. unfold bproj, cevents. cbn [flat_map snd]. destruct (bs_side st), w; cbn; rewrite ?app_nil_r; reflexivity. Qed.

  Lemma bstep_up_mono y1 l y st w : bstep_ y1 l = Some (y, st) -> up (bend y w) = true -> up (bend y1 w) = true.
  Proof.
    intros Hs Hu. destruct (bstep_inv _ _ _ _ Hs) as (Hc & Ho & _). cbv zeta in Hc, Ho.
    destruct (side_cases (bs_side st) w) as [E|E].
    - rewrite E in Hc. destruct (bs_label st) as [l0|].
      + destruct (cstep_plain _ _ _ _ Hc) as (_ & _ & Hup & _). congruence.
      + unfold cstep in Hc. cbn [cstep_gen] in Hc. destruct (up (bend y1 w)); [reflexivity|discriminate].
    - rewrite E, other_other in Ho. congruence.
  Qed.

  Definition svcs_of {A} (sA sB : A) (w : side) : A := match w with SA => sA | SB => sB end.

  Lemma subsystem w oA oB sA sB ls : forall y tr,
    bexec_ (binit oA oB sA sB) ls = Some (y, tr) ->
    exists z trz, sexec_ (sys_init (svcs_of sA sB (other w))) (sub_labels w tr) = Some (z, trz) /\ subsys_rel w y z /\
      (forall e, is_frame e = false -> In e (events (cproj trz)) -> In e (cevents (bproj w tr))) /\
      (forall e, is_frame e = false -> In e (events (sproj trz)) -> In e (cevents (bproj (other w) tr))) /\
      run_tags (cevents (bproj w tr)) = run_tags (events (cproj trz)) /\
      (up (bend y w) = true -> del_tags (cevents (bproj w tr)) = del_tags (events (cproj trz))) /\
      (forall tg sn, In (ERun tg sn) (cevents (bproj w tr)) -> In (ERun tg sn) (events (cproj trz))).
  Proof.
    induction ls as [|l ls IH] using rev_ind; intros y tr H.
    - inversion H; subst. exists (sys_init (svcs_of sA sB (other w))), []. split; [reflexivity|]. split.
      + unfold subsys_rel, binit, sys_init. destruct w; cbn [bend binq other cl sv c2s s2c ea eb toa tob cinit core up owned svcs_of].
        * split; [exists (init sA); split; [reflexivity|left; reflexivity]|]. split; [reflexivity|]. split; exists []; auto.
        * split; [exists (init sB); split; [reflexivity|left; reflexivity]|]. split; [reflexivity|]. split; exists []; auto.
      + cbn. repeat split; auto; try (intros e _ []); intros tg sn [].
    - apply bexec_snoc in H. destruct H as (y1 & tr1 & st & H1 & Hs & ->).
      destruct (IH _ _ H1) as (z1 & trz1 & Hx1 & R1 & C1 & C2 & C3 & C4 & C5).
      destruct (sim_step w _ _ _ _ _ Hs R1) as (z & trzs & Hxs & R & (D1 & D2 & D3 & D4 & D5)).
      exists z, (trz1 ++ trzs). split; [|split; [exact R|]].
      + unfold sub_labels. rewrite flat_map_app. cbn [flat_map]. rewrite app_nil_r. eapply sexec_app_intro; eauto.
      + rewrite !bproj_app, !cevents_app, !bproj_single, !cproj_app, !sproj_app, !events_app, !run_tags_app, !del_tags_app.
        split; [intros e Hf Hin; apply in_app_or in Hin; apply in_or_app; destruct Hin; [left; auto|right; auto]|].
        split; [intros e Hf Hin; apply in_app_or in Hin; apply in_or_app; destruct Hin; [left; auto|right; auto]|].
        split; [rewrite C3, D3; reflexivity|].
        split; [intros Hu; rewrite (C4 (bstep_up_mono _ _ _ _ _ Hs Hu)), (D4 Hu); reflexivity|].
        intros tg sn Hin. apply in_app_or in Hin. apply in_or_app. destruct Hin; [left; auto|right; auto].
  Qed.

  (* ---------------------------------------------------------------- labels of the direction vs labels of the history *)
  Lemma btrace_steps ls : forall y y' tr,
    bexec_ y ls = Some (y', tr) -> forall l st, In (l, st) tr -> In l ls /\ exists y1 y2, bstep_ y1 l = Some (y2, st).
  Proof.
    induction ls as [|l0 r IH]; intros y y' tr H l st Hin.
    - inversion H; subst. destruct Hin.
    - apply bexec_cons in H. destruct H as (y1 & st0 & tr' & Hs & He & ->). destruct Hin as [E|Hin].
      + inversion E; subst. split; [left; reflexivity|eauto].
      + destruct (IH _ _ _ He _ _ Hin) as (A & B). split; [right; exact A|exact B].
  Qed.

  Lemma sub_label_cases w y1 l y2 st :
    bstep_ y1 l = Some (y2, st) ->
    sfetch_tags (sub_label w (l, st)) = bfetch_tags w [l] /\
    (forall t c, In (SCall (LFetch t c)) (sub_label w (l, st)) -> l = BCall w (LFetch t c)) /\
    (forall k m, In (SDone k m) (sub_label w (l, st)) -> l = BDone (other w) k m) /\
    (forall sl, In sl (sub_label w (l, st)) -> (exists t c, sl = SCall (LFetch t c)) \/ (exists k m, sl = SDone k m) \/
                                               (exists t, sl = SCall (LRegister t)) \/ (exists t, sl = SCall (LSend t)) \/ sl = SReq \/ sl = SResp).
  Proof.
    intros Hs. destruct (bstep_inv _ _ _ _ Hs) as (_ & _ & _ & Hl). cbv zeta in Hl.
    unfold sub_label. cbn [snd fst].
    destruct l as [w' l1|w'|w' k0 m0|w'].
    - destruct Hl as (-> & -> & _ & Hk). unfold bfetch_tags. cbn [flat_map]. rewrite app_nil_r.
      destruct Hk as [(t & c & ->)|[(t & ->)|(t & ->)]]; destruct (bs_side st) eqn:Es, w; cbn [side_eqb sfetch_tags flat_map app];
        repeat split; try reflexivity; try (intros; contradiction); try (intros ? ? [E|[]]; inversion E; reflexivity); try (intros ? ? [E|[]]; discriminate);
        try (intros sl [<-|[]]; eauto 10).
    - destruct Hl as (-> & e & q & _ & _ & [(i & svc & meth & req & r & _ & _ & ->)|(i & rp & j & b & _ & _ & ->)]);
        destruct (bs_side st) eqn:Es, w; cbn [side_eqb other sfetch_tags bfetch_tags flat_map app];
        repeat split; try reflexivity; try (intros; contradiction); try (intros ? ? [E|[]]; discriminate); try (intros sl [<-|[]]; eauto 10).
    - destruct Hl as (-> & -> & _). destruct (bs_side st) eqn:Es, w; cbn [side_eqb other sfetch_tags bfetch_tags flat_map app];
        repeat split; try reflexivity; try (intros; contradiction); try (intros ? ? [E|[]]; discriminate);
        try (intros ? ? [E|[]]; inversion E; reflexivity); try (intros sl [<-|[]]; eauto 10).
    - destruct Hl as (-> & -> & _). cbn [sfetch_tags bfetch_tags flat_map app]. repeat split; try reflexivity; intros; contradiction.
  Qed.

  Lemma sub_labels_facts w ls : forall y y' tr,
    bexec_ y ls = Some (y', tr) ->
    sfetch_tags (sub_labels w tr) = bfetch_tags w ls /\
    (forall t c, In (SCall (LFetch t c)) (sub_labels w tr) -> In (BCall w (LFetch t c)) ls) /\
    (forall k m, In (SDone k m) (sub_labels w tr) -> In (BDone (other w) k m) ls).
  Proof.
    induction ls as [|l0 r IH]; intros y y' tr H.
    - inversion H; subst. split; [reflexivity|]. split; intros; contradiction.
    - apply bexec_cons in H. destruct H as (y1 & st0 & tr' & Hs & He & ->).
      destruct (IH _ _ _ He) as (A & B & C). destruct (sub_label_cases w _ _ _ _ Hs) as (A1 & B1 & C1 & _).
      assert (forall a b, sfetch_tags (a ++ b) = sfetch_tags a ++ sfetch_tags b) as Happ by (intros; unfold sfetch_tags; apply flat_map_app).
      unfold sub_labels in *. cbn [flat_map]. split.
      + rewrite Happ, A1, A. unfold bfetch_tags. cbn [flat_map]. rewrite app_nil_r. reflexivity.
      + split.
        * intros t c Hin. apply in_app_or in Hin. destruct Hin as [Hin|Hin]; [left; apply B1; exact Hin|right; apply B; exact Hin].
        * intros k m Hin. apply in_app_or in Hin. destruct Hin as [Hin|Hin]; [left; apply C1; exact Hin|right; apply C; exact Hin].
  Qed.

  (* sizes below 2 GiB *)
  Definition blabel_wf (l : blabel) : Prop :=
    match l with
    | BCall _ (LFetch _ c) => short (c_svc c) /\ short (c_meth c) /\ short (wire_of (c_req c))
    | BDone _ _ m => short (wire_of m)
    | _ => True
    end.
  Definition bsys_wf (ls : list blabel) : Prop := forall l, In l ls -> blabel_wf l.

  Lemma sub_labels_wf w ls y y' tr :
    bexec_ y ls = Some (y', tr) -> bsys_wf ls -> sys_wf wire_of (sub_labels w tr).
  Proof.
    intros H Hwf sl Hin. unfold sub_labels in Hin. apply in_flat_map in Hin. destruct Hin as ([l st] & Hp & Hsl).
    destruct (btrace_steps _ _ _ _ H _ _ Hp) as (Hl & y1 & y2 & Hs).
    destruct (sub_label_cases w _ _ _ _ Hs) as (_ & B1 & C1 & D1).
    destruct (D1 _ Hsl) as [(t & c & ->)|[(k & m & ->)|[(t & ->)|[(t & ->)|[->| ->]]]]]; cbn [label_wf]; auto.
    - pose proof (B1 _ _ Hsl) as ->. exact (Hwf _ Hl).
    - pose proof (C1 _ _ Hsl) as ->. exact (Hwf _ Hl).
  Qed.

  Lemma fetch_label_transfer w ls : forall y y' tr t c,
    bexec_ y ls = Some (y', tr) -> In (BCall w (LFetch t c)) ls -> In (SCall (LFetch t c)) (sub_labels w tr).
  Proof.
    induction ls as [|l0 r IH]; intros y y' tr t c H Hin; [destruct Hin|].
    apply bexec_cons in H. destruct H as (y1 & st0 & tr' & Hs & He & ->).
    unfold sub_labels. cbn [flat_map]. apply in_or_app. destruct Hin as [->|Hin]; [left|right; eapply IH; eauto].
    destruct (bstep_inv _ _ _ _ Hs) as (_ & _ & _ & Hl). cbv zeta in Hl. destruct Hl as (Ew & El & _).
    unfold sub_label. cbn [snd]. rewrite El, <- Ew, side_eqb_refl. left. reflexivity.
  Qed.

  (* what a closure that runs at end w has been given *)
  Definition bserved (sA sB : option (list (name * list name))) (ls : list blabel) (tr : btrace) (w : side) (tg : tag) (sn : seen) : Prop :=
    exists t t' c i, In (BCall w (LFetch t c)) ls /\ c_tag c = tg /\ In (EFetch t' i tg) (cevents (bproj w tr)) /\
      ((exists k m, sn = Parsed m /\ In (BDone (other w) k m) ls /\
                    In (EDispatch k i (c_svc c) (c_meth c) (c_req c)) (cevents (bproj (other w) tr))) \/
       (exists e, sn = Untouched /\ resolve (svcs_of sA sB (other w)) (mkReq i (c_svc c) (c_meth c) (Valid (c_req c))) = inl e)).

  Lemma in_cproj_events (trz : strace) e :
    In e (events (cproj trz)) -> exists sl stz x, In (sl, stz) trz /\ ss_cl stz = Some x /\ In e (snd x).
  Proof.
    unfold events, cproj. intros H. apply in_flat_map in H. destruct H as ([l0 ev0] & Hin & He).
    apply in_flat_map in Hin. destruct Hin as ([sl stz] & Hp & Hx). cbn [snd] in *.
    destruct (ss_cl stz) as [x|] eqn:E; [|destruct Hx]. destruct Hx as [->|[]]. exists sl, stz, (l0, ev0). auto.
  Qed.

  Theorem bidirectional oA oB sA sB ls y tr :
    bexec_ (binit oA oB sA sB) ls = Some (y, tr) ->
    bsys_wf ls -> (forall w, NoDup (bfetch_tags w ls)) -> (forall w, next_id (core (bend y w)) < 9223372036854775808) ->
    forall w,
      (forall tg sn, In (ERun tg sn) (cevents (bproj w tr)) -> bserved sA sB ls tr w tg sn) /\
      (forall tg, (count_occ Nat.eq_dec (run_tags (cevents (bproj w tr))) tg <= 1)%nat) /\
      (bquiescent y -> forall t c, In (BCall w (LFetch t c)) ls ->
         count_occ Nat.eq_dec (run_tags (cevents (bproj w tr))) (c_tag c) = (if c_done c then 1 else 0)%nat /\
         count_occ Nat.eq_dec (del_tags (cevents (bproj w tr))) (c_tag c) = 1%nat).
  Proof.
    intros H Hwf Hnd Hid w.
    destruct (subsystem w _ _ _ _ _ _ _ H) as (z & trz & Hx & (R1 & R2 & (xc & R3 & R3u) & (xs & R4 & R4u)) & C1 & C2 & C3 & C4 & C5).
    destruct (sub_labels_facts w _ _ _ _ H) as (FT & FL & FD).
    assert (next_id (cl z) < 9223372036854775808) as Hidz.
    { destruct R1 as (s & -> & [Rs|(_ & _ & Rs)]); cbn [cpart next_id]; specialize (Hid w); rewrite Rs in Hid; exact Hid. }
    destruct (end_to_end wire_of content_of user_roundtrip _ _ _ _ Hx (sub_labels_wf w _ _ _ _ H Hwf) ltac:(rewrite FT; apply Hnd) Hidz) as (E1 & E2 & E3).
    split; [|split].
    - intros tg sn Hrun.
      pose proof (C5 _ _ Hrun) as Hrz.
      destruct (in_cproj_events _ _ Hrz) as (sl & stz & x & Hin & Hcl & Hex).
      destruct (E1 _ _ _ _ _ Hin Hcl Hex) as (t & t' & c & i & A & B & C & D).
      exists t, t', c, i. split; [apply FL; exact A|]. split; [exact B|]. split; [apply C1; [reflexivity|exact C]|].
      destruct D as [(k & m & D1 & D2 & D3)|D]; [left|right; exact D].
      exists k, m. split; [exact D1|]. split; [apply FD; exact D2|apply C2; [reflexivity|exact D3]].
    - intros tg. rewrite C3. apply E2.
    - intros (Q1 & Q2 & Q3) t c Hin.
      destruct (Q3 w) as (Uw & Pw & Tw). destruct (Q3 (other w)) as (Uo & Po & To).
      assert (quiescent z) as Hq.
      { destruct R1 as (s & Rc & [Rs|(Ru & _)]); [|congruence].
        assert (forall v, binq y v = []) as Hqe by (intros [|]; assumption).
        repeat split.
        - rewrite R3, (Hqe (other w)), (R3u Uw). reflexivity.
        - rewrite R4, (Hqe w), (R4u Uo). reflexivity.
        - rewrite R2. cbn [spart pending]. exact Po.
        - intros u. rewrite Rc. cbn [cpart threads]. rewrite <- Rs. apply Tw. }
      assert (In (SCall (LFetch t c)) (sub_labels w tr)) as Hinz by (eapply fetch_label_transfer; eauto).
      destruct (E3 Hq _ _ Hinz) as (A & B). rewrite C3, (C4 Uw). auto.
  Qed.
  (* ---------------------------------------------------------------- the connection goes DOWN inside a system history *)
  Lemma down_label_in_history ls : forall y y' tr w,
    bexec_ y ls = Some (y', tr) -> In (BDown w) ls -> In CDown (map fst (bproj w tr)).
  Proof.
    induction ls as [|l0 r IH]; intros y y' tr w H Hin; [destruct Hin|].
    apply bexec_cons in H. destruct H as (y1 & st0 & tr' & Hs & He & ->).
    change ((l0, st0) :: tr') with ([(l0, st0)] ++ tr'). rewrite bproj_app, map_app. apply in_or_app.
    destruct Hin as [->|Hin]; [left|right; eapply IH; eauto].
    destruct (bstep_inv _ _ _ _ Hs) as (_ & _ & _ & Hl). cbv zeta in Hl. destruct Hl as (Ew & El & _).
    unfold bproj. cbn [flat_map snd]. rewrite <- Ew, El. destruct w; left; reflexivity.
  Qed.

  (* each end's part of a two-way history is a history of that channel's life cycle, so everything proved
     about the DOWN of one channel holds inside the system: after its DOWN an end interprets no frame, runs
     and deletes nothing and sends nothing; a call in flight at that moment never runs; it is dropped
     (response object deleted, closure deleted) exactly once if the channel dies with the connection *)
  Theorem system_down oA oB sA sB ls y tr w :
    bexec_ (binit oA oB sA sB) ls = Some (y, tr) ->
    let own := svcs_of oA oB w in let svcs := svcs_of sA sB w in
    cexec (cinit own svcs) (map fst (bproj w tr)) = Some (bend y w, bproj w tr) /\
    (In (BDown w) ls -> exists l1 l2, map fst (bproj w tr) = map CL l1 ++ CDown :: l2) /\
    (forall l1 l2, map fst (bproj w tr) = map CL l1 ++ CDown :: l2 ->
       (forall l ev e, In (l, ev) (skipn (S (length l1)) (bproj w tr)) -> In e ev ->
          match e with
          | EFetch _ _ _ | ERegister _ _ _ => own = false
          | EUseAfterFree _ => own = true
          | _ => False
          end) /\
       (NoDup (fetch_tags l1) ->
          (forall tg, (count_occ Nat.eq_dec (run_tags (cevents (bproj w tr))) tg <= 1)%nat /\
                      (count_occ Nat.eq_dec (del_tags (cevents (bproj w tr))) tg <= 1)%nat) /\
          (forall s1 tr1 i d, exec (init svcs) l1 = Some (s1, tr1) -> lookup i (outs s1) = Some d ->
             count_occ Nat.eq_dec (run_tags (cevents (bproj w tr))) (c_tag d) = 0%nat /\
             count_occ Nat.eq_dec (del_tags (cevents (bproj w tr))) (c_tag d) = (if own then 1 else 0)%nat))).
  Proof.
    intros H own svcs.
    assert (cexec (cinit own svcs) (map fst (bproj w tr)) = Some (bend y w, bproj w tr)) as Hend.
    { pose proof (end_history _ _ _ _ w H) as He. destruct w; exact He. }
    split; [exact Hend|]. split.
    - intros Hin. apply split_at_down. eapply down_label_in_history; eauto.
    - intros l1 l2 Hsplit. rewrite Hsplit in Hend. split.
      + exact (nothing_sent_after_down _ _ _ _ _ _ Hend).
      + intros Hnd. split.
        * intros tg. destruct (down_at_most_once _ _ _ _ _ _ tg Hend Hnd) as (A & B & _). auto.
        * intros s1 tr1 i d H1 Hl. exact (inflight_at_down _ _ _ _ _ _ _ _ _ _ Hend Hnd H1 Hl).
  Qed.
End Bi.
