(* C18_CodecProofs: the literal onMessage loop (C18_Model.cstep) equals, step by step, the
   declarative reference (ref_split); prefix-determinacy; round trip; reject classes;
   consumed bytes are exactly the delivered frames; no faulting read. *)
From Coq Require Import List ZArith Lia Bool Arith NArith.
From Coq.Strings Require Import Byte.
From Muduo Require Import Base_Bytes Gen_Consts C18_Model C18_StreamProofs.
Import ListNotations.
Local Open Scope Z_scope.

(* ---- the regenerated constants, as the proofs need them -------------------- *)
Lemma kHeaderLen_val : kHeaderLen = 4. Proof. reflexivity. Qed.
Lemma kChecksumLen_val : kChecksumLen = 4. Proof. reflexivity. Qed.
Lemma kMaxMessageLen_val : kMaxMessageLen = 64 * 1024 * 1024. Proof. reflexivity. Qed.

(* ---- lists ------------------------------------------------------------------ *)
Lemma firstn_app_le {A} (n : nat) (l1 l2 : list A) :
  (n <= length l1)%nat -> firstn n (l1 ++ l2) = firstn n l1.
Proof.
  intros H. rewrite firstn_app. replace (n - length l1)%nat with 0%nat by lia.
  cbn [firstn]. apply app_nil_r.
Qed.
Lemma skipn_app_le {A} (n : nat) (l1 l2 : list A) :
  (n <= length l1)%nat -> skipn n (l1 ++ l2) = skipn n l1 ++ l2.
Proof.
  intros H. rewrite skipn_app. replace (n - length l1)%nat with 0%nat by lia. reflexivity.
Qed.
Lemma firstn_app_len {A} (n : nat) (l1 l2 : list A) :
  length l1 = n -> firstn n (l1 ++ l2) = l1.
Proof. intros <-. apply firstn_app_exact. Qed.
Lemma skipn_app_len {A} (n : nat) (l1 l2 : list A) :
  length l1 = n -> skipn n (l1 ++ l2) = l2.
Proof. intros <-. apply skipn_app_exact. Qed.

Lemma bytes_eqb_eq a b : bytes_eqb a b = true <-> a = b.
Proof.
  revert b; induction a as [|x a IH]; intros [|y b]; cbn [bytes_eqb]; split; intros H;
    try reflexivity; try discriminate.
  - apply andb_true_iff in H as [H1 H2]. apply Byte.byte_dec_bl in H1. apply IH in H2. congruence.
  - inversion H; subst. apply andb_true_iff. split; [apply Byte.byte_dec_lb; reflexivity|].
    apply IH. reflexivity.
Qed.
Lemma bytes_eqb_refl a : bytes_eqb a a = true.
Proof. apply bytes_eqb_eq. reflexivity. Qed.
Lemma bytes_eqb_neq a b : a <> b -> bytes_eqb a b = false.
Proof.
  intros H. destruct (bytes_eqb a b) eqn:E; [|reflexivity]. apply bytes_eqb_eq in E. contradiction.
Qed.

(* ---- checked reads -------------------------------------------------------- *)
Lemma read_at_ok b off len :
  0 <= off -> 0 <= len -> off + len <= Z.of_nat (length b) ->
  read_at b off len = Some (firstn (Z.to_nat len) (skipn (Z.to_nat off) b)).
Proof.
  intros H1 H2 H3. unfold read_at.
  destruct (Z.leb_spec 0 off); [|lia]. destruct (Z.leb_spec 0 len); [|lia].
  destruct (Z.leb_spec (off + len) (Z.of_nat (length b))); [|lia]. reflexivity.
Qed.
Lemma retrieve_ok b n :
  0 <= n -> n <= Z.of_nat (length b) -> retrieve b n = Some (skipn (Z.to_nat n) b).
Proof.
  intros H1 H2. unfold retrieve.
  destruct (Z.leb_spec 0 n); [|lia]. destruct (Z.leb_spec n (Z.of_nat (length b))); [|lia].
  reflexivity.
Qed.

(* ---- Adler-32 is a 32-bit value ------------------------------------------- *)
Lemma adler_fold_range l a b :
  0 <= a < adler_base -> 0 <= b < adler_base ->
  0 <= fst (fold_left adler_step l (a, b)) < adler_base /\
  0 <= snd (fold_left adler_step l (a, b)) < adler_base.
Proof.
  revert a b; induction l as [|x l IH]; intros a b Ha Hb; cbn [fold_left fst snd]; [tauto|].
  unfold adler_step at 2. cbn [fst snd]. apply IH; apply Z.mod_pos_bound; unfold adler_base; lia.
Qed.
Lemma adler32_range l : 0 <= adler32 l < 256 ^ Z.of_nat 4.
Proof.
  unfold adler32.
  destruct (adler_fold_range l 1 0) as [H1 H2]; [unfold adler_base; lia|unfold adler_base; lia|].
  change (256 ^ Z.of_nat 4) with 4294967296. unfold adler_base in *. lia.
Qed.

(* ---- 32-bit signed / unsigned ---------------------------------------------- *)
Lemma to_signed4 u : to_signed 4 u = if u <? 2147483648 then u else u - 4294967296.
Proof. reflexivity. Qed.
Lemma to_signed4_eqb u v :
  0 <= u < 4294967296 -> 0 <= v < 4294967296 -> (to_signed 4 u =? to_signed 4 v) = (u =? v).
Proof.
  intros Hu Hv. rewrite !to_signed4.
  destruct (Z.eqb_spec u v) as [E|E].
  - subst v. apply Z.eqb_refl.
  - destruct (Z.ltb_spec u 2147483648), (Z.ltb_spec v 2147483648); apply Z.eqb_neq; lia.
Qed.
Lemma be_decode4_range l : length l = 4%nat -> 0 <= be_decode l < 4294967296.
Proof. intros H. pose proof (be_decode_range l) as R. rewrite H in R. exact R. Qed.
Lemma signed4_nonneg l : length l = 4%nat -> 0 <= be_decode_signed l -> be_decode l = be_decode_signed l.
Proof.
  intros H Hs. unfold be_decode_signed in *. rewrite H in *. rewrite to_signed4 in *.
  pose proof (be_decode4_range l H).
  destruct (Z.ltb_spec (be_decode l) 2147483648); lia.
Qed.
Lemma be_signed4 x : 0 <= x <= 64 * 1024 * 1024 -> be_decode_signed (be_encode 4 x) = x.
Proof.
  intros H. apply be_signed_roundtrip; [lia|]. unfold signed_range.
  change (256 ^ Z.of_nat 4 / 2) with 2147483648. lia.
Qed.

Section CodecProofs.
  Variable msg : Type.
  Variable parse : list byte -> option msg.
  Variable ser : msg -> list byte.
  Variable tag : list byte.

  Notation M := (length tag).
  Notation cstep := (cstep msg parse tag).
  Notation ref_split := (ref_split msg parse tag).
  Notation ref_decode := (ref_decode msg parse tag).
  Notation sresT := (sres unit (cevent msg)).

  (* the verdict on a complete frame body (the [size] bytes after the length field) *)
  Definition frame_result (n : nat) (body rest : list byte) : ref_frame msg :=
    let tp := firstn (n - 4) body in
    let ck := skipn (n - 4) body in
    if negb (be_decode ck =? adler32 tp) then RBad msg kCheckSumError
    else if negb (bytes_eqb (firstn M tp) tag) then RBad msg kUnknownMessageType
    else match parse (skipn M tp) with
         | None => RBad msg kParseError
         | Some m => RFrame msg m rest
         end.

  Lemma ref_split_eq s : ref_split s =
    if (length s <? 4 + M + 4)%nat then RIncomplete msg
    else
      let size := be_decode_signed (firstn 4 s) in
      if (size <? Z.of_nat M + 4) || (64 * 1024 * 1024 <? size) then RBad msg kInvalidLength
      else
        let n := Z.to_nat size in
        if (length s <? 4 + n)%nat then RIncomplete msg
        else frame_result n (firstn n (skipn 4 s)) (skipn (4 + n) s).
  Proof. reflexivity. Qed.

  Definition step_of_ref (r : ref_frame msg) : sresT :=
    match r with
    | RIncomplete _ => SWait
    | RBad _ e => SStop [CErr e]
    | RFrame _ m rest => SEmit [CMsg m] tt rest
    end.

  (* ---- literal loop body = reference split, for every buffer --------------- *)
  Lemma cstep_ref : forall u b, cstep u b = step_of_ref (ref_split b).
  Proof.
    intros u b. rewrite ref_split_eq. unfold C18_Model.cstep, kMinMessageLen.
    rewrite kHeaderLen_val, kChecksumLen_val, Z.geb_leb.
    destruct (Z.leb_spec (Z.of_nat M + 4 + 4) (Z.of_nat (length b))) as [H1|H1];
      destruct (Nat.ltb_spec (length b) (4 + M + 4)) as [H1'|H1']; try lia; [|reflexivity].
    rewrite (read_at_ok b 0 4) by lia.
    change (Z.to_nat 0) with 0%nat. change (Z.to_nat 4) with 4%nat. change (skipn 0 b) with b.
    set (size := be_decode_signed (firstn 4 b)). cbv zeta.
    unfold length_bad, kMinMessageLen. rewrite kMaxMessageLen_val, kChecksumLen_val, Z.gtb_ltb.
    rewrite orb_comm.
    destruct ((size <? Z.of_nat M + 4) || (64 * 1024 * 1024 <? size)) eqn:Eb; [reflexivity|].
    apply orb_false_iff in Eb as [Eb1 Eb2]. apply Z.ltb_ge in Eb1, Eb2.
    set (n := Z.to_nat size).
    assert (Hn : Z.of_nat n = size) by (unfold n; lia).
    rewrite Z.geb_leb.
    destruct (Z.leb_spec (4 + size) (Z.of_nat (length b))) as [H2|H2];
      destruct (Nat.ltb_spec (length b) (4 + n)) as [H2'|H2']; try lia; [|reflexivity].
    (* the complete frame *)
    unfold parse_frame, validateChecksum. rewrite kChecksumLen_val.
    rewrite (read_at_ok b (4 + size - 4) 4) by lia.
    rewrite (read_at_ok b 4 (size - 4)) by lia.
    change (Z.to_nat 4) with 4%nat.
    replace (Z.to_nat (4 + size - 4)) with n by lia.
    replace (Z.to_nat (size - 4)) with (n - 4)%nat by lia.
    unfold frame_result.
    set (body := firstn n (skipn 4 b)).
    assert (Htp : firstn (n - 4) body = firstn (n - 4) (skipn 4 b)).
    { unfold body. rewrite firstn_firstn. f_equal. lia. }
    assert (Hck : skipn (n - 4) body = firstn 4 (skipn n b)).
    { unfold body. rewrite skipn_firstn_comm, skipn_add. f_equal; [lia|f_equal; lia]. }
    rewrite Htp, Hck.
    set (tp := firstn (n - 4) (skipn 4 b)). set (ck := firstn 4 (skipn n b)).
    assert (Lck : length ck = 4%nat).
    { unfold ck. rewrite firstn_length, skipn_length. lia. }
    assert (Ltp : length tp = (n - 4)%nat).
    { unfold tp. rewrite firstn_length, skipn_length. lia. }
    unfold checksum32, be_decode_signed. rewrite Lck.
    rewrite to_signed4_eqb by (first [apply adler32_range | apply be_decode4_range; exact Lck]).
    rewrite (Z.eqb_sym (adler32 tp)).
    destruct (be_decode ck =? adler32 tp); cbn [negb]; [|reflexivity].
    rewrite (read_at_ok b 4 (Z.of_nat M)) by lia.
    rewrite Nat2Z.id. change (Z.to_nat 4) with 4%nat.
    assert (Htag : firstn M tp = firstn M (skipn 4 b)).
    { unfold tp. rewrite firstn_firstn. f_equal. lia. }
    rewrite Htag.
    destruct (bytes_eqb (firstn M (skipn 4 b)) tag); cbn [negb]; [|reflexivity].
    rewrite (read_at_ok b (4 + Z.of_nat M) (size - 4 - Z.of_nat M)) by lia.
    assert (Hp : skipn M tp = firstn (Z.to_nat (size - 4 - Z.of_nat M)) (skipn (Z.to_nat (4 + Z.of_nat M)) b)).
    { unfold tp. rewrite skipn_firstn_comm, skipn_add. f_equal; [lia|f_equal; lia]. }
    rewrite <- Hp.
    destruct (parse (skipn M tp)) as [m|]; [|reflexivity].
    rewrite (retrieve_ok b (4 + size)) by lia.
    replace (Z.to_nat (4 + size)) with (4 + n)%nat by lia. reflexivity.
  Qed.

  (* ---- prefix-determinacy of the reference split ------------------------------ *)
  Lemma ref_split_frame_mono b c m r :
    ref_split b = RFrame msg m r -> ref_split (b ++ c) = RFrame msg m (r ++ c).
  Proof.
    rewrite !ref_split_eq. rewrite app_length.
    destruct (Nat.ltb_spec (length b) (4 + M + 4)) as [H1|H1]; [discriminate|].
    destruct (Nat.ltb_spec (length b + length c) (4 + M + 4)) as [H1'|H1']; [lia|].
    rewrite (firstn_app_le 4 b c) by lia. cbv zeta.
    destruct ((be_decode_signed (firstn 4 b) <? Z.of_nat M + 4)
              || (64 * 1024 * 1024 <? be_decode_signed (firstn 4 b))); [discriminate|].
    set (n := Z.to_nat (be_decode_signed (firstn 4 b))).
    destruct (Nat.ltb_spec (length b) (4 + n)) as [H2|H2]; [discriminate|].
    destruct (Nat.ltb_spec (length b + length c) (4 + n)) as [H2'|H2']; [lia|].
    rewrite (skipn_app_le 4 b c) by lia.
    rewrite (firstn_app_le n (skipn 4 b) c) by (rewrite skipn_length; lia).
    rewrite (skipn_app_le (4 + n) b c) by lia.
    unfold frame_result.
    destruct (negb _); [discriminate|]. destruct (negb _); [discriminate|].
    destruct (parse _); [|discriminate]. intros H; inversion H; subst. reflexivity.
  Qed.

  Lemma ref_split_bad_mono b c e :
    ref_split b = RBad msg e -> ref_split (b ++ c) = RBad msg e.
  Proof.
    rewrite !ref_split_eq. rewrite app_length.
    destruct (Nat.ltb_spec (length b) (4 + M + 4)) as [H1|H1]; [discriminate|].
    destruct (Nat.ltb_spec (length b + length c) (4 + M + 4)) as [H1'|H1']; [lia|].
    rewrite (firstn_app_le 4 b c) by lia. cbv zeta.
    destruct ((be_decode_signed (firstn 4 b) <? Z.of_nat M + 4)
              || (64 * 1024 * 1024 <? be_decode_signed (firstn 4 b))); [tauto|].
    set (n := Z.to_nat (be_decode_signed (firstn 4 b))).
    destruct (Nat.ltb_spec (length b) (4 + n)) as [H2|H2]; [discriminate|].
    destruct (Nat.ltb_spec (length b + length c) (4 + n)) as [H2'|H2']; [lia|].
    rewrite (skipn_app_le 4 b c) by lia.
    rewrite (firstn_app_le n (skipn 4 b) c) by (rewrite skipn_length; lia).
    rewrite (skipn_app_le (4 + n) b c) by lia.
    unfold frame_result.
    destruct (negb _); [tauto|]. destruct (negb _); [tauto|].
    destruct (parse _); [discriminate|tauto].
  Qed.

  Lemma ref_split_frame_len b m r :
    ref_split b = RFrame msg m r -> (length r + (4 + M + 4) <= length b)%nat.
  Proof.
    rewrite ref_split_eq.
    destruct (Nat.ltb_spec (length b) (4 + M + 4)) as [H1|H1]; [discriminate|]. cbv zeta.
    destruct ((be_decode_signed (firstn 4 b) <? Z.of_nat M + 4)
              || (64 * 1024 * 1024 <? be_decode_signed (firstn 4 b))) eqn:Eb; [discriminate|].
    apply orb_false_iff in Eb as [Eb1 Eb2]. apply Z.ltb_ge in Eb1, Eb2.
    set (n := Z.to_nat (be_decode_signed (firstn 4 b))) in *.
    destruct (Nat.ltb_spec (length b) (4 + n)) as [H2|H2]; [discriminate|].
    remember (skipn (4 + n) b) as rr eqn:Err.
    unfold frame_result.
    destruct (negb _); [discriminate|]. destruct (negb _); [discriminate|].
    destruct (parse _); [|discriminate]. intros H; injection H as _ Hr. rewrite <- Hr, Err.
    rewrite skipn_length. lia.
  Qed.

  (* ---- the three hypotheses of the generic segmentation theorem -------------- *)
  Lemma cstep_shrinks : forall s b evs s' r, cstep s b = SEmit evs s' r -> (length r < length b)%nat.
  Proof.
    intros s b evs s' r H. rewrite cstep_ref in H.
    destruct (ref_split b) as [|e|m rest] eqn:E; cbn [step_of_ref] in H; try discriminate.
    inversion H; subst. apply ref_split_frame_len in E. lia.
  Qed.
  Lemma cstep_emit_mono : forall s b evs s' r c,
    cstep s b = SEmit evs s' r -> cstep s (b ++ c) = SEmit evs s' (r ++ c).
  Proof.
    intros s b evs s' r c H. rewrite cstep_ref in *.
    destruct (ref_split b) as [|e|m rest] eqn:E; cbn [step_of_ref] in H; try discriminate.
    inversion H; subst. rewrite (ref_split_frame_mono _ c _ _ E). reflexivity.
  Qed.
  Lemma cstep_stop_mono : forall s b evs c, cstep s b = SStop evs -> cstep s (b ++ c) = SStop evs.
  Proof.
    intros s b evs c H. rewrite cstep_ref in *.
    destruct (ref_split b) as [|e|m rest] eqn:E; cbn [step_of_ref] in H; try discriminate.
    inversion H; subst. rewrite (ref_split_bad_mono _ c _ E). reflexivity.
  Qed.

  Notation run := (run cstep).
  Notation cfeed := (codec_feed msg parse tag).
  Notation cfeed_all := (codec_feed_all msg parse tag).

  Definition decode (s : list byte) : list (cevent msg) * dstate unit := run (S (length s)) tt s.

  Lemma codec_init_settled : settled unit (cevent msg) cstep codec_init.
  Proof. apply init_settled. rewrite cstep_ref, ref_split_eq. reflexivity. Qed.

  Lemma feed_init_decode s : cfeed codec_init s = decode s.
  Proof. reflexivity. Qed.

  (* segmentation invariance *)
  Theorem codec_seg_invariant : forall chunks,
    cfeed_all codec_init chunks = cfeed codec_init (concat chunks).
  Proof.
    intros chunks. unfold codec_feed_all, codec_feed.
    apply (feed_all_concat unit (cevent msg) cstep cstep_shrinks cstep_emit_mono cstep_stop_mono).
    exact codec_init_settled.
  Qed.

  Theorem codec_no_oof : forall chunks, d_oof (snd (cfeed_all codec_init chunks)) = false.
  Proof.
    intros chunks. unfold codec_feed_all.
    apply (feed_all_no_oof unit (cevent msg) cstep cstep_shrinks). reflexivity.
  Qed.

  Lemma feed_all_decode chunks : cfeed_all codec_init chunks = decode (concat chunks).
  Proof. rewrite codec_seg_invariant. apply feed_init_decode. Qed.

  (* ---- equality with the reference decoder ---------------------------------- *)
  Definition of_ref (r : list msg * option err * list byte) : list (cevent msg) * dstate unit :=
    (ref_events msg r,
     let '(_, e, rest) := r in
     mkD tt rest (match e with Some _ => true | None => false end) false).

  Lemma run_ref : forall fuel s, (length s < fuel)%nat -> run fuel tt s = of_ref (ref_decode fuel s).
  Proof.
    induction fuel as [|f IH]; intros s H; [lia|].
    cbn [C18_Model.run C18_Model.ref_decode]. rewrite cstep_ref.
    destruct (ref_split s) as [|e|m rest] eqn:E; cbn [step_of_ref]; try reflexivity.
    apply ref_split_frame_len in E. rewrite (IH rest) by lia.
    destruct (ref_decode f rest) as [[ms e] r]. reflexivity.
  Qed.

  Theorem codec_equals_reference : forall chunks,
    cfeed_all codec_init chunks =
    of_ref (ref_decode (S (length (concat chunks))) (concat chunks)).
  Proof. intros chunks. rewrite feed_all_decode. unfold decode. apply run_ref. lia. Qed.

  (* ---- a well-framed head: size, tag+payload, checksum, anything after -------- *)
  Lemma encode_length p : length (encode tag p) = (4 + (M + length p + 4))%nat.
  Proof. unfold encode. rewrite !app_length, !be_encode_length. lia. Qed.

  Lemma ref_split_framed tp ck rest :
    length ck = 4%nat -> (M <= length tp)%nat -> Z.of_nat (length tp) + 4 <= kMaxMessageLen ->
    ref_split (be_encode 4 (Z.of_nat (length tp) + 4) ++ tp ++ ck ++ rest) =
    frame_result (length tp + 4) (tp ++ ck) rest.
  Proof.
    intros Lck Ltp Hmax. rewrite kMaxMessageLen_val in Hmax. rewrite ref_split_eq.
    set (l4 := be_encode 4 (Z.of_nat (length tp) + 4)).
    assert (L4 : length l4 = 4%nat) by apply be_encode_length.
    rewrite !app_length, L4, Lck.
    destruct (Nat.ltb_spec (4 + (length tp + (4 + length rest))) (4 + M + 4)); [lia|].
    rewrite (firstn_app_len 4 l4) by exact L4. cbv zeta.
    assert (Hd : be_decode_signed l4 = Z.of_nat (length tp) + 4) by (unfold l4; apply be_signed4; lia).
    rewrite !Hd.
    destruct (Z.ltb_spec (Z.of_nat (length tp) + 4) (Z.of_nat M + 4)); [lia|].
    destruct (Z.ltb_spec (64 * 1024 * 1024) (Z.of_nat (length tp) + 4)); [lia|]. cbn [orb].
    replace (Z.to_nat (Z.of_nat (length tp) + 4)) with (length tp + 4)%nat by lia.
    destruct (Nat.ltb_spec (4 + (length tp + (4 + length rest))) (4 + (length tp + 4))); [lia|].
    rewrite (skipn_app_len 4 l4) by exact L4.
    replace (l4 ++ tp ++ ck ++ rest) with ((l4 ++ tp ++ ck) ++ rest) by (rewrite <- !app_assoc; reflexivity).
    rewrite (skipn_app_len (4 + (length tp + 4)) (l4 ++ tp ++ ck))
      by (rewrite !app_length; lia).
    replace (tp ++ ck ++ rest) with ((tp ++ ck) ++ rest) by (rewrite <- app_assoc; reflexivity).
    rewrite (firstn_app_len (length tp + 4) (tp ++ ck)) by (rewrite app_length; lia).
    reflexivity.
  Qed.

  Lemma frame_result_framed tp ck rest :
    frame_result (length tp + 4) (tp ++ ck) rest =
    if negb (be_decode ck =? adler32 tp) then RBad msg kCheckSumError
    else if negb (bytes_eqb (firstn M tp) tag) then RBad msg kUnknownMessageType
    else match parse (skipn M tp) with
         | None => RBad msg kParseError
         | Some m => RFrame msg m rest
         end.
  Proof.
    unfold frame_result. replace (length tp + 4 - 4)%nat with (length tp) by lia.
    rewrite firstn_app_exact, skipn_app_exact. reflexivity.
  Qed.

  Definition frame_fits (p : list byte) : Prop :=
    Z.of_nat M + Z.of_nat (length p) + 4 <= kMaxMessageLen.

  Lemma ref_split_encode p rest : frame_fits p ->
    ref_split (encode tag p ++ rest) =
    match parse p with Some m => RFrame msg m rest | None => RBad msg kParseError end.
  Proof.
    intros Hf. unfold frame_fits in Hf. unfold encode.
    replace (Z.of_nat M + Z.of_nat (length p) + 4) with (Z.of_nat (length (tag ++ p)) + 4)
      by (rewrite app_length; lia).
    replace ((be_encode 4 (Z.of_nat (length (tag ++ p)) + 4) ++ tag ++ p ++
              be_encode 4 (adler32 (tag ++ p))) ++ rest)
      with (be_encode 4 (Z.of_nat (length (tag ++ p)) + 4) ++ (tag ++ p) ++
            be_encode 4 (adler32 (tag ++ p)) ++ rest)
      by (rewrite <- !app_assoc; reflexivity).
    rewrite ref_split_framed;
      [|apply be_encode_length|rewrite app_length; lia|rewrite app_length; lia].
    rewrite frame_result_framed.
    rewrite be_unsigned_roundtrip by apply adler32_range.
    rewrite Z.eqb_refl. cbn [negb].
    rewrite firstn_app_exact, skipn_app_exact, bytes_eqb_refl. cbn [negb]. reflexivity.
  Qed.

  (* ---- decoding a stream that starts with valid frames ------------------------- *)
  Lemma decode_unfold s : decode s =
    match ref_split s with
    | RIncomplete _ => ([], mkD tt s false false)
    | RBad _ e => ([CErr e], mkD tt s true false)
    | RFrame _ m rest => let (e2, d) := decode rest in (CMsg m :: e2, d)
    end.
  Proof.
    unfold decode. cbn [C18_Model.run]. rewrite cstep_ref.
    destruct (ref_split s) as [|e|m rest] eqn:E; cbn [step_of_ref]; try reflexivity.
    apply ref_split_frame_len in E.
    rewrite (run_fuel unit (cevent msg) cstep cstep_shrinks (length s) (S (length rest)) tt rest) by lia.
    reflexivity.
  Qed.

  Definition good (p : list byte) (m : msg) : Prop := parse p = Some m /\ frame_fits p.

  Lemma decode_prefix ps ms t : Forall2 good ps ms ->
    decode (flat_map (encode tag) ps ++ t) =
    let (e, d) := decode t in (map CMsg ms ++ e, d).
  Proof.
    induction 1 as [|p m ps ms [Hp Hf] _ IH]; cbn [flat_map map app].
    - destruct (decode t). reflexivity.
    - rewrite <- app_assoc, decode_unfold, ref_split_encode by exact Hf. rewrite Hp, IH.
      destruct (decode t). reflexivity.
  Qed.

  Lemma decode_bad t e : ref_split t = RBad msg e -> decode t = ([CErr e], mkD tt t true false).
  Proof. intros H. rewrite decode_unfold, H. reflexivity. Qed.

  (* valid frames, then a head that the reference classifies as bad: the messages, then
     exactly that error; the bad frame and everything after it stay unconsumed *)
  Lemma decode_prefix_bad ps ms t e : Forall2 good ps ms -> ref_split t = RBad msg e ->
    decode (flat_map (encode tag) ps ++ t) = (map CMsg ms ++ [CErr e], mkD tt t true false).
  Proof. intros H Hb. rewrite (decode_prefix ps ms t H), (decode_bad t e Hb). reflexivity. Qed.

  (* ---- reject classes, as verdicts of the reference on the head of the rest ---- *)
  Lemma bad_length t :
    (4 + M + 4 <= length t)%nat ->
    (be_decode_signed (firstn 4 t) < Z.of_nat M + 4 \/ kMaxMessageLen < be_decode_signed (firstn 4 t)) ->
    ref_split t = RBad msg kInvalidLength.
  Proof.
    intros H1 H2. rewrite kMaxMessageLen_val in H2. rewrite ref_split_eq.
    destruct (Nat.ltb_spec (length t) (4 + M + 4)); [lia|]. cbv zeta.
    destruct (Z.ltb_spec (be_decode_signed (firstn 4 t)) (Z.of_nat M + 4));
      destruct (Z.ltb_spec (64 * 1024 * 1024) (be_decode_signed (firstn 4 t))); cbn [orb];
      try reflexivity; lia.
  Qed.

  Lemma bad_checksum tp ck rest :
    length ck = 4%nat -> (M <= length tp)%nat -> Z.of_nat (length tp) + 4 <= kMaxMessageLen ->
    be_decode ck <> adler32 tp ->
    ref_split (be_encode 4 (Z.of_nat (length tp) + 4) ++ tp ++ ck ++ rest) = RBad msg kCheckSumError.
  Proof.
    intros H1 H2 H3 H4. rewrite ref_split_framed, frame_result_framed by assumption.
    destruct (Z.eqb_spec (be_decode ck) (adler32 tp)); [contradiction|reflexivity].
  Qed.

  Lemma bad_tag tg p rest :
    length tg = M -> tg <> tag -> Z.of_nat M + Z.of_nat (length p) + 4 <= kMaxMessageLen ->
    ref_split (encode tg p ++ rest) = RBad msg kUnknownMessageType.
  Proof.
    intros H1 H2 H3. unfold encode. rewrite H1.
    replace (Z.of_nat M + Z.of_nat (length p) + 4) with (Z.of_nat (length (tg ++ p)) + 4)
      by (rewrite app_length; lia).
    replace ((be_encode 4 (Z.of_nat (length (tg ++ p)) + 4) ++ tg ++ p ++
              be_encode 4 (adler32 (tg ++ p))) ++ rest)
      with (be_encode 4 (Z.of_nat (length (tg ++ p)) + 4) ++ (tg ++ p) ++
            be_encode 4 (adler32 (tg ++ p)) ++ rest)
      by (rewrite <- !app_assoc; reflexivity).
    rewrite ref_split_framed;
      [|apply be_encode_length|rewrite app_length; lia|rewrite app_length; lia].
    rewrite frame_result_framed.
    rewrite be_unsigned_roundtrip by apply adler32_range.
    rewrite Z.eqb_refl. cbn [negb].
    rewrite <- H1, firstn_app_exact, bytes_eqb_neq by exact H2. reflexivity.
  Qed.

  Lemma bad_payload p rest : frame_fits p -> parse p = None ->
    ref_split (encode tag p ++ rest) = RBad msg kParseError.
  Proof. intros H1 H2. rewrite ref_split_encode, H2 by exact H1. reflexivity. Qed.

  (* ---- every delivered message is a well-formed frame of the stream ------------ *)
  Lemma ref_split_frame_inv b m rest : ref_split b = RFrame msg m rest ->
    exists p, b = encode tag p ++ rest /\ parse p = Some m /\ frame_fits p.
  Proof.
    rewrite ref_split_eq.
    destruct (Nat.ltb_spec (length b) (4 + M + 4)) as [H1|H1]; [discriminate|]. cbv zeta.
    set (size := be_decode_signed (firstn 4 b)).
    destruct ((size <? Z.of_nat M + 4) || (64 * 1024 * 1024 <? size)) eqn:Eb; [discriminate|].
    apply orb_false_iff in Eb as [Eb1 Eb2]. apply Z.ltb_ge in Eb1, Eb2.
    set (n := Z.to_nat size).
    assert (Hn : Z.of_nat n = size) by (unfold n; lia).
    destruct (Nat.ltb_spec (length b) (4 + n)) as [H2|H2]; [discriminate|].
    remember (skipn (4 + n) b) as rr eqn:Err.
    unfold frame_result.
    set (body := firstn n (skipn 4 b)).
    set (tp := firstn (n - 4) body). set (ck := skipn (n - 4) body).
    assert (Lbody : length body = n) by (unfold body; rewrite firstn_length, skipn_length; lia).
    assert (Ltp : length tp = (n - 4)%nat) by (unfold tp; rewrite firstn_length; lia).
    assert (Lck : length ck = 4%nat) by (unfold ck; rewrite skipn_length; lia).
    destruct (Z.eqb_spec (be_decode ck) (adler32 tp)) as [Hck|]; cbn [negb]; [|discriminate].
    destruct (bytes_eqb (firstn M tp) tag) eqn:Et; cbn [negb]; [|discriminate].
    apply bytes_eqb_eq in Et.
    destruct (parse (skipn M tp)) as [m'|] eqn:Ep; [|discriminate].
    intros H; injection H as Hm Hr. rewrite <- Hr, <- Hm, Err. clear Hr Hm.
    exists (skipn M tp). split; [|split; [exact Ep|]].
    - assert (Htp : tp = tag ++ skipn M tp) by (rewrite <- Et at 1; symmetry; apply firstn_skipn).
      assert (Lp : (M + length (skipn M tp) = n - 4)%nat).
      { rewrite <- Ltp. rewrite Htp at 2. rewrite app_length. reflexivity. }
      unfold encode.
      replace (tag ++ skipn M tp ++ be_encode 4 (adler32 (tag ++ skipn M tp)))
        with ((tag ++ skipn M tp) ++ be_encode 4 (adler32 (tag ++ skipn M tp)))
        by (rewrite <- app_assoc; reflexivity).
      rewrite <- Htp.
      replace (Z.of_nat M + Z.of_nat (length (skipn M tp)) + 4) with size by lia.
      assert (L4 : length (firstn 4 b) = 4%nat) by (rewrite firstn_length; lia).
      assert (E4 : be_encode 4 size = firstn 4 b).
      { rewrite <- (be_encode_decode (firstn 4 b)), L4. f_equal.
        symmetry. apply signed4_nonneg; [exact L4|fold size; lia]. }
      assert (Eck : be_encode 4 (adler32 tp) = ck).
      { rewrite <- Hck, <- Lck. apply be_encode_decode. }
      rewrite E4, Eck.
      replace (tp ++ ck) with body by (symmetry; apply firstn_skipn).
      rewrite <- app_assoc.
      replace (body ++ skipn (4 + n) b) with (skipn 4 b).
      + symmetry. apply firstn_skipn.
      + unfold body. rewrite <- (skipn_add n 4 b). symmetry. apply firstn_skipn.
    - unfold frame_fits. rewrite kMaxMessageLen_val.
      assert (Lp : (length (skipn M tp) = n - 4 - M)%nat) by (rewrite skipn_length; lia).
      lia.
  Qed.

  Inductive outcome (evs : list (cevent msg)) (d : dstate unit) (ms : list msg) : Prop :=
  | OutWaiting : evs = map CMsg ms -> d_abandoned d = false ->
                 ref_split (d_buf d) = RIncomplete msg -> outcome evs d ms
  | OutError e : evs = map CMsg ms ++ [CErr e] -> d_abandoned d = true ->
                 ref_split (d_buf d) = RBad msg e -> outcome evs d ms.

  Lemma decode_sound : forall fuel s, (length s < fuel)%nat ->
    exists ps ms, Forall2 good ps ms /\ s = flat_map (encode tag) ps ++ d_buf (snd (run fuel tt s)) /\
                  outcome (fst (run fuel tt s)) (snd (run fuel tt s)) ms.
  Proof.
    induction fuel as [|f IH]; intros s H; [lia|].
    cbn [C18_Model.run]. rewrite cstep_ref.
    destruct (ref_split s) as [|e|m rest] eqn:E; cbn [step_of_ref].
    - exists [], []. split; [constructor|]. split; [reflexivity|].
      apply OutWaiting; [reflexivity|reflexivity|exact E].
    - exists [], []. split; [constructor|]. split; [reflexivity|].
      apply (OutError _ _ _ e); [reflexivity|reflexivity|exact E].
    - pose proof (ref_split_frame_len _ _ _ E) as Hl.
      destruct (ref_split_frame_inv _ _ _ E) as (p & Hb & Hp & Hf).
      destruct (IH rest ltac:(lia)) as (ps & ms & HF & Hs & Ho).
      destruct (C18_Model.run cstep f tt rest) as [e2 d2]. cbn [fst snd] in *.
      exists (p :: ps), (m :: ms). split; [constructor; [split; assumption|exact HF]|].
      split.
      + cbn [flat_map]. rewrite <- app_assoc, <- Hs. exact Hb.
      + destruct Ho as [H1 H2 H3|e' H1 H2 H3].
        * apply OutWaiting; [cbn [map app]; rewrite H1; reflexivity|exact H2|exact H3].
        * apply (OutError _ _ _ e'); [cbn [map app]; rewrite H1; reflexivity|exact H2|exact H3].
  Qed.

  Lemma flat_encode_length ps :
    length (flat_map (encode tag) ps) = list_sum (map (fun p => 4 + (M + length p + 4))%nat ps).
  Proof.
    induction ps as [|p ps IH]; [reflexivity|].
    cbn [flat_map map list_sum]. rewrite app_length, encode_length, IH. reflexivity.
  Qed.

  Theorem codec_consumes_only_own_bytes : forall chunks,
    let r := cfeed_all codec_init chunks in
    exists ps ms,
      Forall2 good ps ms /\
      concat chunks = flat_map (encode tag) ps ++ d_buf (snd r) /\
      outcome (fst r) (snd r) ms /\
      consumed (length (concat chunks)) (snd r) =
        list_sum (map (fun p => 4 + (M + length p + 4))%nat ps).
  Proof.
    intros chunks. cbv zeta. rewrite feed_all_decode. unfold decode.
    destruct (decode_sound (S (length (concat chunks))) (concat chunks) ltac:(lia))
      as (ps & ms & HF & Hs & Ho).
    exists ps, ms. split; [exact HF|]. split; [exact Hs|]. split; [exact Ho|].
    unfold consumed. rewrite Hs at 1. rewrite app_length, flat_encode_length. lia.
  Qed.

  Theorem codec_reads_in_bounds : forall chunks,
    ~ In CFault (fst (cfeed_all codec_init chunks)) /\ d_oof (snd (cfeed_all codec_init chunks)) = false.
  Proof.
    intros chunks. split; [|apply codec_no_oof].
    rewrite codec_equals_reference.
    destruct (ref_decode _ _) as [[ms e] r]. unfold of_ref, ref_events. cbn [fst].
    intros H. apply in_app_or in H as [H|H].
    - apply in_map_iff in H as (m & Hm & _). discriminate.
    - destruct e; cbn in H; [destruct H as [H|[]]; discriminate|contradiction].
  Qed.

  (* ---- round trip --------------------------------------------------------------- *)
  Lemma decode_nil : decode [] = ([], mkD tt [] false false).
  Proof. rewrite decode_unfold, ref_split_eq. reflexivity. Qed.

  (* the round trip needs parse (ser m) = Some m only for the messages actually sent *)
  Theorem codec_roundtrip_on : forall ms chunks,
    Forall (fun m => parse (ser m) = Some m /\ frame_fits (ser m)) ms ->
    concat chunks = flat_map (encode_msg msg ser tag) ms ->
    cfeed_all codec_init chunks = (map CMsg ms, mkD tt [] false false).
  Proof.
    intros ms chunks Hfit Hc. rewrite feed_all_decode, Hc.
    assert (HF : Forall2 good (map ser ms) ms).
    { clear Hc. induction Hfit as [|m ms Hm _ IH]; cbn [map]; [constructor|].
      constructor; [exact Hm|exact IH]. }
    replace (flat_map (encode_msg msg ser tag) ms) with (flat_map (encode tag) (map ser ms) ++ []).
    - rewrite (decode_prefix _ _ [] HF), decode_nil, app_nil_r. reflexivity.
    - rewrite app_nil_r. clear. induction ms as [|m ms IH]; [reflexivity|].
      cbn [flat_map map]. rewrite IH. reflexivity.
  Qed.

  Hypothesis parse_ser : forall m, parse (ser m) = Some m.

  Theorem codec_roundtrip : forall ms chunks,
    Forall (fun m => frame_fits (ser m)) ms ->
    concat chunks = flat_map (encode_msg msg ser tag) ms ->
    cfeed_all codec_init chunks = (map CMsg ms, mkD tt [] false false).
  Proof.
    intros ms chunks Hfit Hc. rewrite feed_all_decode, Hc.
    assert (HF : Forall2 good (map ser ms) ms).
    { clear Hc. induction Hfit as [|m ms Hm _ IH]; cbn [map]; [constructor|].
      constructor; [split; [apply parse_ser|exact Hm]|exact IH]. }
    replace (flat_map (encode_msg msg ser tag) ms) with (flat_map (encode tag) (map ser ms) ++ []).
    - rewrite (decode_prefix _ _ [] HF), decode_nil, app_nil_r. reflexivity.
    - rewrite app_nil_r. clear. induction ms as [|m ms IH]; [reflexivity|].
      cbn [flat_map map]. rewrite IH. reflexivity.
  Qed.
End CodecProofs.
