(* C09_ProofsPoll: the poll back-end invariant and refinement (pollfds_, swap-and-pop, -fd-1). *)
From Coq Require Import List ZArith NArith Lia Bool Arith Permutation.
From Muduo Require Import Gen_Consts Gen_C09 C09_Model C09_Proofs.
Import ListNotations.

(* ---- list helpers ------------------------------------------------------------------------------- *)
Lemma length_set_nth : forall A i (x : A) l, length (set_nth i x l) = length l.
Proof. induction i; intros x [|y t]; cbn; auto. Qed.
Lemma nth_set_nth_eq : forall A i (x : A) l, i < length l -> nth_error (set_nth i x l) i = Some x.
Proof. induction i; intros x [|y t] H; cbn in *; try lia; auto. apply IHi. lia. Qed.
Lemma nth_set_nth_neq : forall A i j (x : A) l, j <> i -> nth_error (set_nth i x l) j = nth_error l j.
Proof.
  induction i; intros j x [|y t] H; cbn; auto.
  - destruct j; [lia|reflexivity].
  - destruct j; [reflexivity|]. cbn. apply IHi. lia.
Qed.
Lemma length_removelast' : forall A (l : list A), length (removelast l) = length l - 1.
Proof.
  induction l as [|a [|b t] IH]; cbn in *; auto. rewrite IH. lia.
Qed.
Lemma nth_removelast : forall A (l : list A) j, j < length l - 1 -> nth_error (removelast l) j = nth_error l j.
Proof.
  induction l as [|a [|b t] IH]; intros j H; cbn in *; try lia.
  destruct j; [reflexivity|]. cbn. apply IH. cbn. lia.
Qed.
Lemma nth_app_last : forall A (l : list A) x, nth_error (l ++ [x]) (length l) = Some x.
Proof. intros. rewrite nth_error_app2 by lia. now rewrite Nat.sub_diag. Qed.
Lemma nth_app_old : forall A (l : list A) x j p, nth_error l j = Some p -> nth_error (l ++ [x]) j = Some p.
Proof. intros. rewrite nth_error_app1; auto. apply nth_error_Some. congruence. Qed.

(* ---- invariant -------------------------------------------------------------------------------------- *)
Definition slot (ch : chan) : pfd :=
  mkPfd (if N.eqb (events ch) 0 then neg_fd (fd ch) else Z.of_nat (fd ch)) (events ch).

Definition idx_okP (ri : bool) (pfds : list pfd) (ch : chan) (s : sch) : Prop :=
  (added ch = false /\ (index ch = (-1)%Z \/ (ri = false /\ s_rm s = true /\ (0 <= index ch)%Z))) \/
  (added ch = true /\ exists i, index ch = Z.of_nat i /\ nth_error pfds i = Some (slot ch)).

Record InvP (ri : bool) (st : pp) (sp : spec) : Prop := {
  ip_obj : forall c, rel_obj (idx_okP ri (p_pfds st)) (p_objs st c) (sp c);
  ip_map : forall f c, p_map st f = Some c <-> exists s, sp c = Some s /\ s_reg s = true /\ s_fd s = f;
  ip_own : forall i, i < length (p_pfds st) ->
           exists c ch, p_objs st c = Some ch /\ added ch = true /\ index ch = Z.of_nat i
}.

Lemma invP_init : forall ri, InvP ri pp_init spec0.
Proof.
  intros ri. constructor; cbn; intros; auto.
  - split; [discriminate|]. intros [s [H _]]. discriminate.
  - lia.
Qed.

Lemma slot_fd : forall c1 c2, slot c1 = slot c2 -> fd c1 = fd c2.
Proof.
  intros c1 c2 H. unfold slot in H. injection H as H1 H2. rewrite H2 in H1.
  unfold neg_fd in H1. destruct (N.eqb (events c2) 0); lia.
Qed.

Lemma slot_key : forall ch,
  Z.to_nat (if Z.ltb (p_fd (slot ch)) 0 then (- p_fd (slot ch) - 1)%Z else p_fd (slot ch)) = fd ch.
Proof.
  intros ch. unfold slot, neg_fd. cbn [p_fd]. destruct (N.eqb (events ch) 0).
  - destruct (Z.ltb_spec (- Z.of_nat (fd ch) - 1) 0); lia.
  - destruct (Z.ltb_spec (Z.of_nat (fd ch)) 0); lia.
Qed.

Section PollInv.
Variable ri : bool.
Variable ne : bool.

Lemma regP_unique : forall st sp c1 c2 s1 s2, InvP ri st sp ->
  sp c1 = Some s1 -> s_reg s1 = true -> sp c2 = Some s2 -> s_reg s2 = true -> s_fd s1 = s_fd s2 -> c1 = c2.
Proof.
  intros st sp c1 c2 s1 s2 I H1 R1 H2 R2 E.
  assert (A : p_map st (s_fd s1) = Some c1) by (apply (ip_map _ _ _ I); eauto).
  assert (B : p_map st (s_fd s1) = Some c2) by (apply (ip_map _ _ _ I); eauto).
  congruence.
Qed.

(* the registered object that owns slot i, with everything known about it *)
Lemma owner : forall st sp i, InvP ri st sp -> i < length (p_pfds st) ->
  exists c ch s, p_objs st c = Some ch /\ sp c = Some s /\ fd ch = s_fd s /\ events ch = s_ev s /\
    s_reg s = true /\ index ch = Z.of_nat i /\ nth_error (p_pfds st) i = Some (slot ch) /\ added ch = true.
Proof.
  intros st sp i I H. destruct (ip_own _ _ _ I i H) as [c [ch [Ho [A X]]]].
  pose proof (ip_obj _ _ _ I c) as RO. rewrite Ho in RO. apply rel_obj_some_l in RO.
  destruct RO as [s [Hs [Efd [Eev [Ead OK]]]]].
  destruct OK as [[A1 _]|[_ [j [J1 J2]]]]; [congruence|].
  assert (j = i) by lia. subst j. exists c, ch, s. repeat split; auto. congruence.
Qed.

Lemma reg_slot : forall st sp c s, InvP ri st sp -> sp c = Some s -> s_reg s = true ->
  exists ch i, p_objs st c = Some ch /\ fd ch = s_fd s /\ events ch = s_ev s /\ added ch = true /\
    index ch = Z.of_nat i /\ nth_error (p_pfds st) i = Some (slot ch) /\ i < length (p_pfds st).
Proof.
  intros st sp c s I Hs R. pose proof (ip_obj _ _ _ I c) as RO. rewrite Hs in RO.
  apply rel_obj_some in RO. destruct RO as [ch [Ho [Efd [Eev [Ead OK]]]]].
  destruct OK as [[A1 _]|[A1 [i [J1 J2]]]]; [congruence|].
  exists ch, i. repeat split; auto. apply nth_error_Some. congruence.
Qed.

Lemma same_index : forall st sp c1 c2 s1 s2 ch1 ch2, InvP ri st sp ->
  sp c1 = Some s1 -> s_reg s1 = true -> sp c2 = Some s2 -> s_reg s2 = true ->
  p_objs st c1 = Some ch1 -> p_objs st c2 = Some ch2 -> index ch1 = index ch2 -> c1 = c2.
Proof.
  intros st sp c1 c2 s1 s2 ch1 ch2 I H1 R1 H2 R2 O1 O2 E.
  destruct (reg_slot _ _ _ _ I H1 R1) as [x1 [i1 [A1 [A2 [A3 [A4 [A5 [A6 _]]]]]]]].
  destruct (reg_slot _ _ _ _ I H2 R2) as [x2 [i2 [B1 [B2 [B3 [B4 [B5 [B6 _]]]]]]]].
  assert (x1 = ch1) by congruence. assert (x2 = ch2) by congruence. subst.
  assert (i1 = i2) by lia. subst. rewrite A6 in B6. assert (B7 : slot ch1 = slot ch2) by congruence. apply slot_fd in B7.
  eapply regP_unique; eauto. congruence.
Qed.

Lemma freeP_fd : forall st sp f, InvP ri st sp -> ~ fd_taken sp f -> p_map st f = None.
Proof.
  intros st sp f I NT. destruct (p_map st f) as [c0|] eqn:E; [|auto]. exfalso. apply NT.
  apply (ip_map _ _ _ I) in E. destruct E as [s [A [B C]]]. exists c0, s. auto.
Qed.

(* ---- update ---------------------------------------------------------------------------------------- *)
Lemma pp_upd_ok : forall st sp u c, InvP ri st sp -> sguard sp (Upd u c) ->
  (ne = false -> sclean sp (Upd u c)) -> (ri = false -> sfresh sp (Upd u c)) ->
  exists st', pp_step ri ne st (Upd u c) = Ok (st', []) /\ InvP ri st' (spec_step sp (Upd u c)).
Proof.
  intros st sp u c I [s [Hs G]] CL0 FR.
  assert (CL : ne = false -> apply_uop u (s_ev s) = 0%N -> s_reg s = true /\ s_ev s <> 0%N).
  { intros F. exact (CL0 F s Hs). }
  assert (NED : ne = true \/ ne = false) by (destruct (Bool.bool_dec ne true) as [X|X]; [auto|right; now apply not_true_is_false]).
  pose proof (ip_obj _ _ _ I c) as RO. rewrite Hs in RO. apply rel_obj_some in RO.
  destruct RO as [ch [Ho [Efd [Eev [Ead OK]]]]].
  cbn [pp_step spec_step]. rewrite Ho, Hs, Eev.
  set (ev' := apply_uop u (s_ev s)) in *.
  unfold pp_updateChannel. cbn [p_objs p_map p_pfds]. rewrite upd_eq. cbn [fd index events].
  destruct OK as [[A1 A2]|[A1 [i [J1 J2]]]].
  - (* not registered: push_back *)
    assert (R : s_reg s = false) by congruence.
    destruct G as [G|G]; [congruence|].
    assert (Hidx : index ch = (-1)%Z).
    { destruct A2 as [A2|[A2 [A3 _]]]; [auto|]. specialize (FR A2 s Hs). cbn in FR. congruence. }
    rewrite Hidx. cbn [Z.ltb Z.compare].
    rewrite (freeP_fd _ _ _ I) by (rewrite Efd; exact G). cbn [bind].
    eexists. split; [reflexivity|].
    assert (SL : slot (mkChan (fd ch) ev' (Z.of_nat (length (p_pfds st))) true) =
                 mkPfd (if ne && isNone (mkChan (fd ch) ev' (-1) true) then neg_fd (fd ch) else Z.of_nat (fd ch)) ev').
    { unfold slot, isNone. cbn [events fd]. rewrite kNone0. destruct (N.eqb_spec ev' 0) as [Z0|NZ].
      - destruct NED as [->|NF]; [reflexivity|]. exfalso. destruct (CL NF Z0). congruence.
      - now rewrite andb_false_r. }
    constructor; cbn [p_objs p_map p_pfds].
    + intros c0. destruct (Nat.eq_dec c0 c) as [->|N].
      * rewrite !upd_eq. cbn. repeat split; auto. right. split; [reflexivity|].
        exists (length (p_pfds st)). split; [reflexivity|]. cbn [set_index index fd events added].
        rewrite nth_app_last. now rewrite <- SL.
      * rewrite upd_upd_neq, upd_neq by auto. pose proof (ip_obj _ _ _ I c0) as RO.
        destruct (p_objs st c0) as [ch0|], (sp c0) as [s0|]; cbn in *; auto.
        destruct RO as [B1 [B2 [B3 B4]]]. repeat split; auto.
        destruct B4 as [B4|[B4 [j [B5 B6]]]]; [left; auto|]. right. split; [auto|].
        exists j. split; [auto|]. now apply nth_app_old.
    + intros f c0. unfold upd at 1. destruct (Nat.eqb_spec f (fd ch)) as [->|N].
      * split.
        -- intros H. injection H as <-. rewrite upd_eq. eexists. split; [reflexivity|]. cbn. auto.
        -- intros [s0 [B1 [B2 B3]]]. destruct (Nat.eq_dec c0 c) as [->|N]; [auto|].
           rewrite upd_neq in B1 by auto. exfalso. apply G. exists c0, s0. repeat split; auto. congruence.
      * rewrite (ip_map _ _ _ I). split; intros [s0 [B1 [B2 B3]]].
        -- assert (c0 <> c). { intros ->. assert (s0 = s) by congruence. subst. congruence. }
           exists s0. rewrite upd_neq by auto. auto.
        -- destruct (Nat.eq_dec c0 c) as [->|N2].
           ++ rewrite upd_eq in B1. injection B1 as <-. cbn in B3. congruence.
           ++ rewrite upd_neq in B1 by auto. eauto.
    + intros j Hj. rewrite app_length in Hj. cbn in Hj.
      destruct (Nat.eq_dec j (length (p_pfds st))) as [->|N].
      * exists c. eexists. rewrite upd_eq. split; [reflexivity|]. cbn. auto.
      * destruct (ip_own _ _ _ I j) as [c0 [ch0 [B1 [B2 B3]]]]; [lia|].
        assert (c0 <> c) by (intros ->; congruence).
        exists c0, ch0. rewrite upd_upd_neq by auto. auto.
  - (* registered: rewrite the slot *)
    assert (R : s_reg s = true) by congruence.
    assert (Hm : p_map st (fd ch) = Some c). { apply (ip_map _ _ _ I). exists s. auto. }
    rewrite J1. destruct (Z.ltb_spec (Z.of_nat i) 0) as [L|L]; [lia|].
    rewrite Hm, Nat.eqb_refl, Nat2Z.id, J2.
    assert (CK : (Z.eqb (p_fd (slot ch)) (Z.of_nat (fd ch)) || Z.eqb (p_fd (slot ch)) (neg_fd (fd ch))) = true).
    { unfold slot. cbn [p_fd]. destruct (N.eqb (events ch) 0); rewrite Z.eqb_refl; auto using orb_true_r. }
    rewrite CK. cbn [bind]. eexists. split; [reflexivity|].
    assert (Hi : i < length (p_pfds st)) by (apply nth_error_Some; congruence).
    set (ch' := mkChan (fd ch) ev' (Z.of_nat i) true).
    assert (SL : mkPfd (if isNone ch' then neg_fd (fd ch) else Z.of_nat (fd ch)) ev' = slot ch').
    { unfold slot, isNone, ch'. cbn [events fd]. rewrite kNone0. reflexivity. }
    rewrite SL.
    constructor; cbn [p_objs p_map p_pfds].
    + intros c0. destruct (Nat.eq_dec c0 c) as [->|N].
      * rewrite !upd_eq. cbn. repeat split; auto. right. split; [reflexivity|].
        exists i. split; [reflexivity|]. now apply nth_set_nth_eq.
      * rewrite !upd_neq by auto. pose proof (ip_obj _ _ _ I c0) as RO.
        destruct (p_objs st c0) as [ch0|] eqn:Ho0, (sp c0) as [s0|] eqn:Hs0; cbn in *; auto.
        destruct RO as [B1 [B2 [B3 B4]]]. repeat split; auto.
        destruct B4 as [B4|[B4 [j [B5 B6]]]]; [left; auto|]. right. split; [auto|].
        exists j. split; [auto|]. rewrite nth_set_nth_neq; auto.
        intros ->. apply N. eapply same_index; eauto; congruence.
    + intros f c0. rewrite (ip_map _ _ _ I). split; intros [s0 [B1 [B2 B3]]].
      * destruct (Nat.eq_dec c0 c) as [->|N].
        -- rewrite upd_eq. eexists. split; [reflexivity|]. cbn. split; auto. congruence.
        -- rewrite upd_neq by auto. eauto.
      * destruct (Nat.eq_dec c0 c) as [->|N].
        -- rewrite upd_eq in B1. injection B1 as <-. cbn in *. eauto.
        -- rewrite upd_neq in B1 by auto. eauto.
    + intros j Hj. rewrite length_set_nth in Hj.
      destruct (ip_own _ _ _ I j Hj) as [c0 [ch0 [B1 [B2 B3]]]].
      destruct (Nat.eq_dec c0 c) as [->|N].
      * exists c. eexists. rewrite upd_eq. split; [reflexivity|]. cbn. split; auto.
        assert (ch0 = ch) by congruence. subst. congruence.
      * exists c0, ch0. rewrite upd_neq by auto. auto.
Qed.

(* ---- remove ------------------------------------------------------------------------------------------ *)
Lemma pp_remove_ok : forall st sp c, InvP ri st sp -> sguard sp (Remove c) ->
  exists st', pp_step ri ne st (Remove c) = Ok (st', []) /\ InvP ri st' (spec_step sp (Remove c)).
Proof.
  intros st sp c I [s [Hs [R Z]]].
  destruct (reg_slot _ _ _ _ I Hs R) as [ch [i [Ho [Efd [Eev [Ead [J1 [J2 Hi]]]]]]]].
  assert (Hm : p_map st (fd ch) = Some c). { apply (ip_map _ _ _ I). exists s. auto. }
  assert (HN : isNone ch = true) by (apply isNone_iff; congruence).
  assert (E0 : events ch = 0%N) by congruence.
  assert (SL : slot ch = mkPfd (neg_fd (fd ch)) (events ch)). { unfold slot. now rewrite E0. }
  cbn [pp_step spec_step]. rewrite Hs. unfold pp_removeChannel. rewrite Ho, HN. cbn [negb].
  rewrite Hm, Nat.eqb_refl, J1, Nat2Z.id.
  destruct (Z.leb_spec 0 (Z.of_nat i)) as [_|L]; [|lia].
  destruct (Nat.ltb_spec i (length (p_pfds st))) as [_|L]; [|lia]. cbn [andb].
  rewrite J2, SL. cbn [p_fd p_ev]. rewrite Z.eqb_refl, N.eqb_refl. cbn [andb].
  set (final := mkChan (fd ch) (events ch) (if ri then (-1)%Z else Z.of_nat i) false).
  set (s' := mkSch (s_fd s) (s_ev s) false true).
  assert (FOK : rel_obj (fun ch0 s0 => added ch0 = false /\ (index ch0 = (-1)%Z \/ (ri = false /\ s_rm s0 = true /\ (0 <= index ch0)%Z)))
                        (Some final) (Some s')).
  { cbn -[Z.of_nat]. repeat split; auto. unfold final, s'; cbn [index s_rm]; destruct ri; [left; reflexivity|right; split; [reflexivity|split; [reflexivity|lia]]]. }
  (* the map after erasing fd *)
  assert (MAP : forall f c0, upd (p_map st) (fd ch) None f = Some c0 <->
                exists s0, upd sp c (Some s') c0 = Some s0 /\ s_reg s0 = true /\ s_fd s0 = f).
  { intros f c0. unfold upd at 1. destruct (Nat.eqb_spec f (fd ch)) as [->|N].
    - split; [discriminate|]. intros [s0 [B1 [B2 B3]]]. destruct (Nat.eq_dec c0 c) as [->|N].
      + rewrite upd_eq in B1. injection B1 as <-. discriminate.
      + rewrite upd_neq in B1 by auto. exfalso. apply N. eapply regP_unique; eauto. congruence.
    - rewrite (ip_map _ _ _ I). split; intros [s0 [B1 [B2 B3]]].
      + assert (c0 <> c). { intros ->. assert (s0 = s) by congruence. subst. congruence. }
        exists s0. rewrite upd_neq by auto. auto.
      + destruct (Nat.eq_dec c0 c) as [->|N2].
        * rewrite upd_eq in B1. injection B1 as <-. discriminate.
        * rewrite upd_neq in B1 by auto. eauto. }
  destruct (Nat.eqb_spec i (length (p_pfds st) - 1)) as [EL|NL].
  - (* last entry: pop_back *)
    eexists. split; [reflexivity|].
    constructor; cbn [p_objs p_map p_pfds].
    + intros c0. destruct (Nat.eq_dec c0 c) as [->|N].
      * rewrite !upd_eq. cbn. repeat split; auto. left. split; [auto|].
        unfold final, s'; cbn [index s_rm]; destruct ri; [left; reflexivity|right; split; [reflexivity|split; [reflexivity|lia]]].
      * rewrite !upd_neq by auto. pose proof (ip_obj _ _ _ I c0) as RO.
        destruct (p_objs st c0) as [ch0|] eqn:Ho0, (sp c0) as [s0|] eqn:Hs0; cbn in *; auto.
        destruct RO as [B1 [B2 [B3 B4]]]. repeat split; auto.
        destruct B4 as [B4|[B4 [j [B5 B6]]]]; [left; auto|]. right. split; [auto|].
        exists j. split; [auto|]. rewrite nth_removelast; auto.
        assert (j < length (p_pfds st)) by (apply nth_error_Some; congruence).
        assert (j <> i). { intros ->. apply N. eapply same_index; eauto; congruence. }
        lia.
    + exact MAP.
    + intros j Hj. rewrite length_removelast' in Hj.
      destruct (ip_own _ _ _ I j) as [c0 [ch0 [B1 [B2 B3]]]]; [lia|].
      assert (c0 <> c). { intros ->. assert (ch0 = ch) by congruence. subst. lia. }
      exists c0, ch0. rewrite upd_neq by auto. auto.
  - (* middle entry: swap with the last one, fix the moved channel's index, pop_back *)
    set (n := length (p_pfds st)) in *.
    destruct (owner _ _ (n - 1) I) as [c2 [ch2 [s2 [O1 [O2 [O3 [O4 [O5 [O6 [O7 OA]]]]]]]]]]; [lia|].
    rewrite O7. rewrite slot_key.
    assert (C2 : c2 <> c). { intros ->. assert (ch2 = ch) by congruence. subst. lia. }
    assert (F2 : fd ch2 <> fd ch).
    { intros E. apply C2. eapply regP_unique; eauto. congruence. }
    rewrite upd_neq by auto.
    assert (Hm2 : p_map st (fd ch2) = Some c2). { apply (ip_map _ _ _ I). exists s2. auto. }
    rewrite Hm2, O1. eexists. split; [reflexivity|].
    assert (LEN : length (removelast (set_nth i (slot ch2) (p_pfds st))) = n - 1).
    { now rewrite length_removelast', length_set_nth. }
    constructor; cbn [p_objs p_map p_pfds].
    + intros c0. destruct (Nat.eq_dec c0 c) as [->|N].
      * rewrite !upd_eq. cbn. repeat split; auto. left. split; [auto|].
        unfold final, s'; cbn [index s_rm]; destruct ri; [left; reflexivity|right; split; [reflexivity|split; [reflexivity|lia]]].
      * rewrite (upd_neq _ _ c) by auto. rewrite (upd_neq _ sp c) by auto.
        destruct (Nat.eq_dec c0 c2) as [->|N2].
        -- rewrite upd_eq, O2. cbn. split; [auto|]. split; [auto|]. split; [congruence|]. right. split; [auto|].
           exists i. split; [reflexivity|]. rewrite nth_removelast by (rewrite length_set_nth; lia).
           rewrite nth_set_nth_eq by lia. reflexivity.
        -- rewrite upd_neq by auto. pose proof (ip_obj _ _ _ I c0) as RO.
           destruct (p_objs st c0) as [ch0|] eqn:Ho0, (sp c0) as [s0|] eqn:Hs0; cbn in *; auto.
           destruct RO as [B1 [B2 [B3 B4]]]. repeat split; auto.
           destruct B4 as [B4|[B4 [j [B5 B6]]]]; [left; auto|]. right. split; [auto|].
           exists j. split; [auto|].
           assert (j < n) by (apply nth_error_Some; congruence).
           assert (j <> i). { intros ->. apply N. eapply same_index; eauto; congruence. }
           assert (j <> n - 1). { intros ->. apply N2. eapply same_index; eauto; congruence. }
           rewrite nth_removelast by (rewrite length_set_nth; lia).
           rewrite nth_set_nth_neq; auto.
    + exact MAP.
    + intros j Hj. rewrite LEN in Hj.
      destruct (Nat.eq_dec j i) as [->|NJ].
      * exists c2. eexists. rewrite upd_neq by auto. rewrite upd_eq. split; [reflexivity|]. cbn. split; [congruence|auto].
      * destruct (ip_own _ _ _ I j) as [c0 [ch0 [B1 [B2 B3]]]]; [lia|].
        assert (c0 <> c). { intros ->. assert (ch0 = ch) by congruence. subst. lia. }
        assert (c0 <> c2). { intros ->. assert (ch0 = ch2) by congruence. subst. lia. }
        exists c0, ch0. rewrite !upd_neq by auto. auto.
Qed.

(* changing an unregistered object (construct / destroy) touches neither the map nor pollfds_ *)
Lemma invP_unreg : forall st sp c o s,
  InvP ri st sp -> (forall s0, sp c = Some s0 -> s_reg s0 = false) ->
  rel_obj (idx_okP ri (p_pfds st)) o s -> (forall s1, s = Some s1 -> s_reg s1 = false) ->
  InvP ri (mkPp (upd (p_objs st) c o) (p_map st) (p_pfds st)) (upd sp c s).
Proof.
  intros st sp c o s I U RO U'. constructor; cbn [p_objs p_map p_pfds].
  - intros c0. destruct (Nat.eq_dec c0 c) as [->|N].
    + now rewrite !upd_eq.
    + rewrite !upd_neq by auto. apply (ip_obj _ _ _ I).
  - intros f c0. rewrite (ip_map _ _ _ I). split; intros [s0 [B1 [B2 B3]]].
    + assert (c0 <> c). { intros ->. apply U in B1. congruence. }
      exists s0. rewrite upd_neq by auto. auto.
    + destruct (Nat.eq_dec c0 c) as [->|N].
      * rewrite upd_eq in B1. apply U' in B1. congruence.
      * rewrite upd_neq in B1 by auto. eauto.
  - intros j Hj. destruct (ip_own _ _ _ I j Hj) as [c0 [ch0 [B1 [B2 B3]]]].
    assert (c0 <> c).
    { intros ->. pose proof (ip_obj _ _ _ I c) as R0. rewrite B1 in R0. apply rel_obj_some_l in R0.
      destruct R0 as [s0 [Hs0 [_ [_ [Ead _]]]]]. apply U in Hs0. congruence. }
    exists c0, ch0. rewrite upd_neq by auto. auto.
Qed.

Lemma pp_new_ok : forall st sp c f, InvP ri st sp -> sguard sp (New c f) ->
  exists st', pp_step ri ne st (New c f) = Ok (st', []) /\ InvP ri st' (spec_step sp (New c f)).
Proof.
  intros st sp c f I G. cbn in G.
  pose proof (ip_obj _ _ _ I c) as RO. rewrite G in RO. apply rel_obj_none in RO.
  cbn [pp_step spec_step]. rewrite RO. eexists. split; [reflexivity|].
  apply invP_unreg; auto.
  - intros s0 H. congruence.
  - cbn -[kNoneEvent]. rewrite kNone0. repeat split. left. cbn. auto.
  - intros s1 H. injection H as <-. reflexivity.
Qed.

Lemma pp_del_ok : forall st sp c, InvP ri st sp -> sguard sp (Del c) ->
  exists st', pp_step ri ne st (Del c) = Ok (st', []) /\ InvP ri st' (spec_step sp (Del c)).
Proof.
  intros st sp c I [s [Hs R]].
  pose proof (ip_obj _ _ _ I c) as RO. rewrite Hs in RO. apply rel_obj_some in RO.
  destruct RO as [ch [Ho [Efd [Eev [Ead OK]]]]].
  cbn [pp_step spec_step]. rewrite Ho. replace (added ch) with false by congruence.
  eexists. split; [reflexivity|].
  apply invP_unreg; auto.
  - intros s0 H. congruence.
  - cbn. auto.
  - intros s1 H. discriminate.
Qed.

(* ---- Poll under poll(2) ------------------------------------------------------------------------------ *)
Lemma pp_fill_gen : forall st sp ready, InvP ri st sp -> forall l,
  (forall p, In p l -> exists c ch s, p_objs st c = Some ch /\ sp c = Some s /\ fd ch = s_fd s /\
                                       events ch = s_ev s /\ s_reg s = true /\ p = slot ch) ->
  exists act, pp_fill st ready l = Ok act /\
    forall c r, In (c, r) act <->
      exists s, sp c = Some s /\ s_reg s = true /\ s_ev s <> 0%N /\
                In (mkPfd (Z.of_nat (s_fd s)) (s_ev s)) l /\
                r = N.land (ready (s_fd s)) (N.lor (s_ev s) EHN) /\ r <> 0%N.
Proof.
  intros st sp ready I. induction l as [|p t IH]; intros OW.
  - exists []. split; [reflexivity|]. intros c r. split; [contradiction|]. intros [s [_ [_ [_ [[] _]]]]].
  - destruct IH as [act [E IFF]]. { intros p0 H0. apply OW. now right. }
    destruct (OW p (or_introl eq_refl)) as [c [ch [s [Ho [Hs [Efd [Eev [R ->]]]]]]]].
    cbn [pp_fill].
    assert (PE : p_ev (slot ch) = events ch) by reflexivity.
    destruct (N.eqb_spec (events ch) 0) as [Z|NZ].
    + (* disabled entry: negative fd, ignored by the kernel *)
      assert (PF : p_fd (slot ch) = neg_fd (fd ch)).
      { unfold slot. cbn [p_fd]. now rewrite (proj2 (N.eqb_eq _ _) Z). }
      assert (L : Z.ltb (neg_fd (fd ch)) 0 = true) by (apply Z.ltb_lt; unfold neg_fd; lia).
      rewrite !PF, L. cbn [N.eqb]. exists act. split; [exact E|].
      intros c0 r0. rewrite IFF. split; intros [s0 [B1 [B2 [B3 [B4 B5]]]]]; exists s0; repeat split; auto; try tauto.
      * now right.
      * destruct B4 as [B4|B4]; [|auto]. exfalso. unfold slot in B4. rewrite (proj2 (N.eqb_eq _ _) Z) in B4.
        injection B4 as B4 _. unfold neg_fd in B4. lia.
    + assert (PF : p_fd (slot ch) = Z.of_nat (fd ch)).
      { unfold slot. cbn [p_fd]. destruct (N.eqb_spec (events ch) 0); [contradiction|reflexivity]. }
      assert (L : Z.ltb (Z.of_nat (fd ch)) 0 = false) by (apply Z.ltb_ge; lia).
      rewrite !PF, !PE, L, !Nat2Z.id.
      assert (SLE : slot ch = mkPfd (Z.of_nat (s_fd s)) (s_ev s)).
      { unfold slot. destruct (N.eqb_spec (events ch) 0); [contradiction|]. congruence. }
      assert (SAME : forall c0 s0, sp c0 = Some s0 -> s_reg s0 = true ->
                mkPfd (Z.of_nat (s_fd s0)) (s_ev s0) = slot ch -> c0 = c /\ s0 = s).
      { intros c0 s0 H0 R0 E0. rewrite SLE in E0. injection E0 as E1 E2.
        assert (c0 = c) by (eapply regP_unique; eauto; lia). subst. split; congruence. }
      destruct (N.eqb_spec (revents_of ready (fd ch) (events ch)) 0) as [RZ|RNZ].
      * exists act. split; [exact E|].
        intros c0 r0. rewrite IFF. split; intros [s0 [B1 [B2 [B3 [B4 B5]]]]]; exists s0; repeat split; auto; try tauto.
        -- now right.
        -- destruct B4 as [B4|B4]; [|auto]. exfalso. symmetry in B4.
           destruct (SAME _ _ B1 B2 B4) as [-> ->]. destruct B5 as [B5 B6]. apply B6. rewrite B5.
           unfold revents_of in RZ. congruence.
      * assert (Hm : p_map st (fd ch) = Some c). { apply (ip_map _ _ _ I). exists s. auto. }
        rewrite Hm, Ho, Z.eqb_refl, E. cbn [bind]. eexists. split; [reflexivity|].
        intros c0 r0. cbn [In]. rewrite IFF. split.
        -- intros [H|[s0 [B1 [B2 [B3 [B4 B5]]]]]].
           ++ injection H as <- <-. exists s. split; [auto|]. split; [auto|]. split; [congruence|].
              split; [left; exact SLE|]. unfold revents_of in *. rewrite <- Efd, <- Eev.
              split; [reflexivity|exact RNZ].
           ++ exists s0. repeat split; auto; try tauto.
        -- intros [s0 [B1 [B2 [B3 [[B4|B4] [B5 B6]]]]]].
           ++ left. symmetry in B4. destruct (SAME _ _ B1 B2 B4) as [-> ->].
              unfold revents_of. rewrite Efd, Eev. now rewrite B5.
           ++ right. exists s0. repeat split; auto.
Qed.

Lemma pp_poll_ok : forall st sp ready choice, InvP ri st sp ->
  exists act, pp_step ri ne st (Poll ready choice) = Ok (st, act) /\
    forall c r, In (c, r) act <-> spec_reports sp ready c r.
Proof.
  intros st sp ready choice I.
  destruct (pp_fill_gen st sp ready I (p_pfds st)) as [act [E IFF]].
  { intros p HI. apply In_nth_error in HI. destruct HI as [i Hi].
    assert (i < length (p_pfds st)) by (apply nth_error_Some; congruence).
    destruct (owner _ _ i I H) as [c [ch [s [O1 [O2 [O3 [O4 [O5 [O6 [O7 _]]]]]]]]]].
    exists c, ch, s. repeat split; auto. congruence. }
  exists act. cbn [pp_step]. rewrite E. cbn [bind]. split; [reflexivity|].
  intros c r. rewrite IFF. unfold spec_reports.
  split; intros [s [B1 [B2 [B3 B4]]]]; exists s; repeat split; auto; try tauto.
  destruct (reg_slot _ _ _ _ I B1 B2) as [ch [i [A1 [A2 [A3 [A4 [A5 [A6 _]]]]]]]].
  apply nth_error_In in A6. unfold slot in A6. rewrite A3, A2 in A6.
  destruct (N.eqb_spec (s_ev s) 0); [contradiction|]. exact A6.
Qed.

(* ---- violated preconditions are rejected --------------------------------------------------------------- *)
Lemma pp_rejected : forall st sp o, InvP ri st sp -> ~ sguard sp o -> pp_step ri ne st o = Rejected.
Proof.
  intros st sp o I NG. destruct o as [c f|c|u c|c|ready choice]; cbn in NG.
  - cbn [pp_step]. pose proof (ip_obj _ _ _ I c) as RO.
    destruct (sp c) as [s|] eqn:Hs; [|congruence].
    apply rel_obj_some in RO. destruct RO as [ch [Ho _]]. now rewrite Ho.
  - cbn [pp_step]. pose proof (ip_obj _ _ _ I c) as RO.
    destruct (sp c) as [s|] eqn:Hs.
    + apply rel_obj_some in RO. destruct RO as [ch [Ho [_ [_ [Ead _]]]]]. rewrite Ho.
      destruct (added ch) eqn:A; [auto|]. exfalso. apply NG. exists s. split; congruence.
    + apply rel_obj_none in RO. now rewrite RO.
  - cbn [pp_step]. pose proof (ip_obj _ _ _ I c) as RO.
    destruct (sp c) as [s|] eqn:Hs.
    + apply rel_obj_some in RO. destruct RO as [ch [Ho [Efd [Eev [Ead OK]]]]]. rewrite Ho.
      destruct (s_reg s) eqn:R. { exfalso. apply NG. exists s. auto. }
      destruct OK as [[A1 A2]|[A1 _]]; [|congruence].
      destruct (p_map st (fd ch)) as [c0|] eqn:Hm.
      * unfold pp_updateChannel. cbn [p_objs p_map p_pfds]. rewrite upd_eq. cbn [index fd].
        rewrite Hm. destruct (Z.ltb (index ch) 0); [reflexivity|].
        destruct (Nat.eqb_spec c0 c) as [->|N]; [|reflexivity]. exfalso.
        apply (ip_map _ _ _ I) in Hm. destruct Hm as [s0 [B1 [B2 _]]]. congruence.
      * exfalso. apply NG. exists s. split; [auto|]. right. intros [c0 [s0 [B1 [B2 B3]]]].
        assert (p_map st (fd ch) = Some c0). { apply (ip_map _ _ _ I). exists s0. repeat split; auto. congruence. }
        congruence.
    + apply rel_obj_none in RO. now rewrite RO.
  - cbn [pp_step]. unfold pp_removeChannel. pose proof (ip_obj _ _ _ I c) as RO.
    destruct (sp c) as [s|] eqn:Hs.
    + apply rel_obj_some in RO. destruct RO as [ch [Ho [Efd [Eev [Ead OK]]]]]. rewrite Ho.
      destruct (isNone ch) eqn:HN; [|reflexivity]. cbn [negb].
      apply isNone_iff in HN.
      destruct (p_map st (fd ch)) as [c0|] eqn:Hm; [|reflexivity].
      destruct (Nat.eqb_spec c0 c) as [->|N]; [|reflexivity].
      exfalso. apply NG. apply (ip_map _ _ _ I) in Hm. destruct Hm as [s0 [B1 [B2 B3]]].
      assert (s0 = s) by congruence. subst. exists s. repeat split; auto. congruence.
    + apply rel_obj_none in RO. now rewrite RO.
  - exfalso. apply NG. exact Logic.I.
Qed.

(* ---- reachability and the refinement statement ----------------------------------------------------------- *)
Definition pextra (sp : spec) (o : op) : Prop := (ne = false -> sclean sp o) /\ (ri = false -> sfresh sp o).

Inductive reachP : pp -> spec -> Prop :=
| reachP_init : reachP pp_init spec0
| reachP_step : forall st sp o st' act, reachP st sp -> sguard sp o -> pextra sp o ->
    pp_step ri ne st o = Ok (st', act) -> reachP st' (spec_step sp o).

Lemma pp_step_ok : forall st sp o, InvP ri st sp -> sguard sp o -> pextra sp o ->
  exists st' act, pp_step ri ne st o = Ok (st', act) /\ InvP ri st' (spec_step sp o) /\
    match o with
    | Poll ready _ => st' = st /\ forall c r, In (c, r) act <-> spec_reports sp ready c r
    | _ => act = []
    end.
Proof.
  intros st sp o I G [CL FR]. destruct o as [c f|c|u c|c|ready choice].
  - destruct (pp_new_ok _ _ _ _ I G) as [st' [E I']]. eauto.
  - destruct (pp_del_ok _ _ _ I G) as [st' [E I']]. eauto.
  - destruct (pp_upd_ok _ _ _ _ I G CL FR) as [st' [E I']]. eauto.
  - destruct (pp_remove_ok _ _ _ I G) as [st' [E I']]. eauto.
  - destruct (pp_poll_ok _ _ ready choice I) as [act [E IFF]]. exists st, act. auto.
Qed.

Lemma reachP_inv : forall st sp, reachP st sp -> InvP ri st sp.
Proof.
  induction 1 as [|st sp o st' act R IH G X E]; [apply invP_init|].
  destruct (pp_step_ok _ _ _ IH G X) as [st2 [act2 [E2 [I2 _]]]]. congruence.
Qed.

Lemma reachP_refines : forall st sp, reachP st sp ->
  forall o,
    (sguard sp o -> pextra sp o ->
       exists st' act, pp_step ri ne st o = Ok (st', act) /\ reachP st' (spec_step sp o) /\
         match o with
         | Poll ready _ => st' = st /\ forall c r, In (c, r) act <-> spec_reports sp ready c r
         | _ => act = []
         end) /\
    (~ sguard sp o -> pp_step ri ne st o = Rejected).
Proof.
  intros st sp R o. pose proof (reachP_inv _ _ R) as I. split.
  - intros G X. destruct (pp_step_ok _ _ _ I G X) as [st' [act [E [I' M]]]].
    exists st', act. split; [exact E|]. split; [econstructor; eauto|exact M].
  - apply pp_rejected; auto.
Qed.
End PollInv.

(* with the index reset (F-1 fixed) and the negated new entry (F-14 fixed) no extra hypothesis is left *)
Lemma pextra_true : forall sp o, pextra true true sp o.
Proof. intros sp o. split; discriminate. Qed.
Lemma pextra_reset : forall ne sp o, sclean sp o -> pextra true ne sp o.
Proof. intros ne sp o H. split; [intros _; exact H|discriminate]. Qed.

(* ---- both back-ends on the same history ------------------------------------------------------------------- *)
Lemma backends_agree : forall se ri ne stE stP sp ready choiceE choiceP stP' actP,
  reachE se stE sp -> reachP ri ne stP sp ->
  pp_step ri ne stP (Poll ready choiceP) = Ok (stP', actP) ->
  (forall c r, In (c, r) actP <-> In (c, r) (ep_full stE ready)) /\
  (exists stE' actE, ep_step se stE (Poll ready choiceE) = Ok (stE', actE) /\
     (forall c r, In (c, r) actE -> In (c, r) actP) /\
     (length (ep_full stE ready) <= e_cap stE -> forall c r, In (c, r) actP -> In (c, r) actE)).
Proof.
  intros se ri ne stE stP sp ready choiceE choiceP stP' actP RE RP E.
  pose proof (reachE_inv _ _ _ RE) as IE. pose proof (reachP_inv _ _ _ _ RP) as IP.
  destruct (pp_poll_ok ri ne _ _ ready choiceP IP) as [act [E2 IFF]].
  rewrite E2 in E. injection E as <- <-.
  assert (A : forall c r, In (c, r) act <-> In (c, r) (ep_full stE ready)).
  { intros c r. rewrite IFF. symmetry. now apply ep_full_in. }
  split; [exact A|].
  destruct (ep_poll_ok se _ _ ready choiceE IE) as [actE [rest [E3 [HP HL]]]].
  eexists _, actE. split; [exact E3|]. split.
  - intros c r H. apply A. eapply Permutation_in; [apply Permutation_sym; exact HP|]. apply in_or_app. now left.
  - intros LE c r H. apply A in H.
    assert (rest = []).
    { apply Permutation_length in HP. rewrite app_length in HP. destruct rest; [auto|cbn in HP; lia]. }
    subst. rewrite app_nil_r in HP. eapply Permutation_in; eauto.
Qed.

(* ---- running a conforming history reaches a related state (used by the non-vacuity examples) -------- *)
Lemma run_reachE : forall se ops st sp, reachE se st sp -> hist_ok (eextra se) sp ops ->
  exists st' outs, ep_run se st ops = Ok (st', outs) /\ reachE se st' (spec_run sp ops).
Proof.
  intros se. induction ops as [|o t IH]; intros st sp R H.
  - exists st, []. split; [reflexivity|exact R].
  - destruct H as [G [CL H]]. pose proof (reachE_inv _ _ _ R) as I.
    destruct (ep_step_ok se _ _ _ I G CL) as [st1 [act [E _]]].
    destruct (IH st1 (spec_step sp o)) as [st' [outs [E' R']]]; [econstructor; eauto|exact H|].
    cbn [ep_run]. rewrite E. cbn [bind fst snd]. rewrite E'. cbn [bind fst snd].
    eexists _, _. split; [reflexivity|exact R'].
Qed.
Lemma run_reachP : forall ri ne ops st sp, reachP ri ne st sp -> hist_ok (pextra ri ne) sp ops ->
  exists st' outs, pp_run ri ne st ops = Ok (st', outs) /\ reachP ri ne st' (spec_run sp ops).
Proof.
  intros ri ne. induction ops as [|o t IH]; intros st sp R H.
  - exists st, []. split; [reflexivity|exact R].
  - destruct H as [G [X H]]. pose proof (reachP_inv _ _ _ _ R) as I.
    destruct (pp_step_ok ri ne _ _ _ I G X) as [st1 [act [E _]]].
    destruct (IH st1 (spec_step sp o)) as [st' [outs [E' R']]]; [econstructor; eauto|exact H|].
    cbn [pp_run]. rewrite E. cbn [bind fst snd]. rewrite E'. cbn [bind fst snd].
    eexists _, _. split; [reflexivity|exact R'].
Qed.
Lemma hist_ok_weaken : forall (e1 e2 : spec -> op -> Prop), (forall sp o, e1 sp o -> e2 sp o) ->
  forall ops sp, hist_ok e1 sp ops -> hist_ok e2 sp ops.
Proof.
  intros e1 e2 W. induction ops as [|o t IH]; intros sp H; [exact I|].
  destruct H as [G [X H]]. split; [exact G|]. split; [now apply W|now apply IH].
Qed.

(* ---- the poll back-end of the CURRENT tree (F-1 fixed bbde8b0, F-14 fixed a5a0563): preconditions only ----
   The generated facts say PollPoller::removeChannel ends with channel->set_index(-1) and the new-entry
   branch of updateChannel stores -fd-1 for an empty interest; reverting either fix flips a fact and
   breaks the lemma that reads it (and everything below). *)
Lemma resets_index_current : PollPoller_remove_resets_index = true.
Proof. reflexivity. Qed.
Lemma new_entry_negates_current : PollPoller_new_entry_negates_empty = true.
Proof. reflexivity. Qed.

Lemma pp_step_current_eq : forall st o, pp_step_current st o = pp_step true true st o.
Proof. intros. unfold pp_step_current. now rewrite resets_index_current, new_entry_negates_current. Qed.

Inductive reachPC : pp -> spec -> Prop :=
| reachPC_init : reachPC pp_init spec0
| reachPC_step : forall st sp o st' act, reachPC st sp -> sguard sp o ->
    pp_step_current st o = Ok (st', act) -> reachPC st' (spec_step sp o).

Lemma reachPC_reachP : forall st sp, reachPC st sp -> reachP true true st sp.
Proof.
  induction 1 as [|st sp o st' act R IH G E]; [constructor|].
  rewrite pp_step_current_eq in E. econstructor; eauto. apply pextra_true.
Qed.
Lemma reachP_reachPC : forall st sp, reachP true true st sp -> reachPC st sp.
Proof.
  induction 1 as [|st sp o st' act R IH G _ E]; [constructor|].
  econstructor; eauto; now rewrite pp_step_current_eq.
Qed.

Lemma reachPC_inv : forall st sp, reachPC st sp -> InvP true st sp.
Proof. intros st sp R. apply (reachP_inv true true). now apply reachPC_reachP. Qed.

(* for ALL histories meeting the documented preconditions -- remove() and re-registration of the same
   Channel object and redundant disables included -- every op succeeds and Poll reports exactly the
   interest map's set *)
Lemma reachPC_refines : forall st sp, reachPC st sp ->
  forall o,
    (sguard sp o ->
       exists st' act, pp_step_current st o = Ok (st', act) /\ reachPC st' (spec_step sp o) /\
         match o with
         | Poll ready _ => st' = st /\ forall c r, In (c, r) act <-> spec_reports sp ready c r
         | _ => act = []
         end) /\
    (~ sguard sp o -> pp_step_current st o = Rejected).
Proof.
  intros st sp R o. pose proof (reachPC_reachP _ _ R) as RP.
  destruct (reachP_refines true true st sp RP o) as [A B]. split.
  - intros G. destruct (A G (pextra_true _ _)) as [st' [act [E [R' M]]]].
    exists st', act. rewrite pp_step_current_eq. split; [exact E|]. split; [now apply reachP_reachPC|exact M].
  - intros NG. rewrite pp_step_current_eq. now apply B.
Qed.

Lemma reachPC_no_fault : forall st sp o, reachPC st sp -> pp_step_current st o <> Fault.
Proof.
  intros st sp o R F. destruct (reachPC_refines st sp R o) as [A B].
  assert (NG : ~ sguard sp o). { intros G. destruct (A G) as [st' [act [E _]]]. congruence. }
  rewrite (B NG) in F. discriminate.
Qed.

Lemma run_reachPC : forall ops st sp, reachPC st sp -> hist_ok no_extra sp ops ->
  exists st' outs, pp_run_current st ops = Ok (st', outs) /\ reachPC st' (spec_run sp ops).
Proof.
  induction ops as [|o t IH]; intros st sp R H.
  - exists st, []. split; [reflexivity|exact R].
  - destruct H as [G [_ H]].
    destruct (reachPC_refines st sp R o) as [A _]. destruct (A G) as [st1 [act [E [R1 _]]]].
    destruct (IH st1 (spec_step sp o) R1 H) as [st' [outs [E' R']]].
    unfold pp_run_current in *. cbn [pp_run]. unfold pp_step_current in E. rewrite E. cbn [bind fst snd].
    rewrite E'. cbn [bind fst snd]. eexists _, _. split; [reflexivity|exact R'].
Qed.

(* both back-ends of the current tree on the same history *)
Lemma backends_agree_current : forall stE stP sp ready choiceE choiceP,
  reachEC stE sp -> reachPC stP sp ->
  exists actP stE' actE,
    pp_step_current stP (Poll ready choiceP) = Ok (stP, actP) /\
    ep_step_current stE (Poll ready choiceE) = Ok (stE', actE) /\
    (forall c r, In (c, r) actP <-> spec_reports sp ready c r) /\
    (forall c r, In (c, r) actP <-> In (c, r) (ep_full stE ready)) /\
    (forall c r, In (c, r) actE -> In (c, r) actP) /\
    (length (ep_full stE ready) <= e_cap stE -> forall c r, In (c, r) actP -> In (c, r) actE).
Proof.
  intros stE stP sp ready choiceE choiceP RE RP.
  destruct (reachPC_refines stP sp RP (Poll ready choiceP)) as [A _].
  destruct (A Logic.I) as [stP' [actP [E [_ [-> IFF]]]]].
  pose proof E as E0. rewrite pp_step_current_eq in E0.
  destruct (backends_agree true true true stE stP sp ready choiceE choiceP stP actP (reachEC_reachE _ _ RE)
              (reachPC_reachP _ _ RP) E0) as [B [stE' [actE [E2 [C D]]]]].
  exists actP, stE', actE. rewrite ep_step_current_eq. repeat split; auto; try apply IFF; try apply B.
Qed.

(* every history meeting the preconditions runs to the end on both back-ends of the current tree *)
Lemma histories_run : forall ops, hist_ok no_extra spec0 ops ->
  (exists stE outsE, ep_run_current ep_init ops = Ok (stE, outsE) /\ reachEC stE (spec_run spec0 ops)) /\
  (exists stP outsP, pp_run_current pp_init ops = Ok (stP, outsP) /\ reachPC stP (spec_run spec0 ops)).
Proof.
  intros ops H. split.
  - apply run_reachEC; [constructor|exact H].
  - apply run_reachPC; [constructor|exact H].
Qed.
