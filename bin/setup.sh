#!/bin/bash
# setup_cmd: build the framework from files on disk only (offline). Idempotent.
set -u
cd "$(dirname "$0")/.." || exit 1
mkdir -p _work evidence
python3 lib/gen_consts.py || true
for g in lib/gen_*.py; do [ "$g" = lib/gen_consts.py ] || python3 "$g" || true; done
bin/mkcoqproject
( cd coq && timeout 3000 make -k -j16 >/dev/null 2>_work_make.err; tail -3 _work_make.err; rm -f _work_make.err )
# pre-build the muduo library variants and every driver / model runner the quick checks need
python3 - <<'PY'
import sys, os, glob
sys.path.insert(0, "lib")
import vlib
for v in ("asan",):
    try:
        vlib.build_muduo(v, ("base", "net"))
    except Exception as e:
        print("setup: muduo build", v, "failed:", str(e)[:500])
for f in sorted(glob.glob("extract/*_Extract.v")):
    p = os.path.basename(f).split("_")[0]
    try:
        vlib.build_model(p)
    except Exception as e:
        print("setup: model", p, "failed:", str(e)[:500])
PY
echo "setup done"
