#!/usr/bin/env python3
"""bin/confirm_seed.py <seeded/dir> [--checks C01,C13]  : confirm a seeded change ourselves
(applies in a scratch worktree outside /repo and /verif: builds with the project's flags, runs the
registered suite, builds and runs the demonstration against the changed tree and against a shared
unchanged baseline build), then optionally runs the named checks against the changed tree with
VERIF_REPO, and writes seeded/<dir>/confirm.json.  Scratch trees are removed afterwards."""
import os, sys, json, subprocess, shutil, re, time, fcntl, shlex

ROOT = os.path.dirname(os.path.dirname(os.path.abspath(__file__)))
SCR = "/var/tmp/muduo_seedcheck"


def sh(cmd, cwd=None, timeout=3600, env=None):
    e = dict(os.environ)
    if env:
        e.update(env)
    p = subprocess.run(cmd, cwd=cwd, shell=isinstance(cmd, str), stdout=subprocess.PIPE, stderr=subprocess.STDOUT, timeout=timeout, env=e)
    return p.returncode, p.stdout.decode("utf-8", "replace")


def build(tree, bdir):
    rc, out = sh("cmake -G Ninja -S %s -B %s -DCMAKE_BUILD_TYPE=RelWithDebInfo -DMUDUO_BUILD_EXAMPLES=ON >/dev/null 2>&1 && cmake --build %s -j6 2>&1 | tail -15" % (tree, bdir, bdir))
    ok = os.path.exists(os.path.join(bdir, "lib/libmuduo_net.a")) and "FAILED" not in out and "error:" not in out
    return ok, out


def baseline():
    os.makedirs(SCR, exist_ok=True)
    head = subprocess.check_output(["git", "-C", "/repo", "rev-parse", "HEAD"]).decode().strip()
    base = os.path.join(SCR, "base_" + head[:10])
    with open(os.path.join(SCR, "base.lock"), "w") as lk:
        fcntl.flock(lk, fcntl.LOCK_EX)
        if not os.path.exists(os.path.join(base, "_b/lib/libmuduo_net.a")):
            shutil.rmtree(base, ignore_errors=True)
            sh(["git", "-C", "/repo", "worktree", "add", "--detach", base, "HEAD"])
            ok, out = build(base, base + "/_b")
            if not ok:
                raise SystemExit("baseline build failed:\n" + out)
    return base


def run_demo(meta, seeddir, tree, tag):
    """compile + run the demonstration against <tree>; returns (rc, tail of output)"""
    work = os.path.join(SCR, "demo_%s_%s_%d" % (os.path.basename(seeddir), tag, os.getpid()))
    shutil.rmtree(work, ignore_errors=True)
    os.makedirs(work)
    for f in os.listdir(seeddir):
        if f not in ("patch.diff", "meta.json", "confirm.json"):
            src = os.path.join(seeddir, f)
            (shutil.copytree if os.path.isdir(src) else shutil.copy)(src, os.path.join(work, f))
    pid = meta["property"]
    orig = "/tmp/seed_%s" % pid

    def fix(cmd):
        cmd = cmd.split("   #")[0].split(" # ")[0]
        cmd = re.sub(re.escape(orig) + r"/SEED_OUT/\d+", work, cmd)
        cmd = cmd.replace(orig, tree)
        cmd = cmd.replace("SEED_OUT/%s/" % os.path.basename(seeddir).split("_")[1], work + "/")
        return cmd
    b, r = fix(meta["demo_build"]), fix(meta["demo_run"])
    rc, out = sh(b, cwd=work, timeout=900)
    if rc != 0:
        return -999, "demo build failed: " + out[-1500:]
    rc, out = sh("timeout 180 bash -c " + shlex.quote(r), cwd=work, timeout=300)
    shutil.rmtree(work, ignore_errors=True)
    return rc, out[-1200:]


def main():
    seeddir = os.path.abspath(sys.argv[1])
    checks = []
    if "--checks" in sys.argv:
        checks = sys.argv[sys.argv.index("--checks") + 1].split(",")
    meta = json.load(open(os.path.join(seeddir, "meta.json")))
    res = {"seed": os.path.basename(seeddir), "at": time.strftime("%Y-%m-%d %H:%M:%S")}
    base = baseline()
    tree = os.path.join(SCR, "t_%s_%d" % (os.path.basename(seeddir), os.getpid()))
    shutil.rmtree(tree, ignore_errors=True)
    sh(["git", "-C", "/repo", "worktree", "prune"])
    rc, out = sh(["git", "-C", "/repo", "worktree", "add", "--detach", tree, "HEAD"])
    try:
        rc, out = sh(["git", "-C", tree, "apply", os.path.join(seeddir, "patch.diff")])
        res["applies"] = (rc == 0)
        if rc != 0:
            res["error"] = out[-800:]
            return finish(seeddir, res)
        if "--no-build" not in sys.argv:
            ok, out = build(tree, tree + "/_b")
            res["builds_warning_free"] = ok
            if not ok:
                res["error"] = out[-1500:]
                return finish(seeddir, res)
            rc, out = sh("ctest --test-dir %s/_b -j8 --timeout 900 2>&1 | tail -6" % tree)
            m = re.search(r"(\d+)% tests passed, (\d+) tests failed out of (\d+)", out)
            res["suite"] = out.strip().split("\n")[-3:] if not m else "%s%% passed, %s failed of %s" % m.groups()
            res["suite_passes"] = bool(m and m.group(2) == "0" and int(m.group(3)) >= 11)
            rc0, out0 = run_demo(meta, seeddir, base, "base")
            rc1, out1 = run_demo(meta, seeddir, tree, "mut")
            res["demo_unchanged"] = {"rc": rc0, "tail": out0[-300:]}
            res["demo_changed"] = {"rc": rc1, "tail": out1[-500:]}
            res["demo_discriminates"] = (rc0 == 0 and rc1 != 0 and rc1 != -999)
            shutil.rmtree(tree + "/_b", ignore_errors=True)
        res["checks"] = {}
        for c in checks:
            t0 = time.time()
            rc, out = sh([os.path.join(ROOT, "bin/check_alt"), tree, c, "--tier", "quick"], cwd=ROOT, env={"VERIF_SEED": "1"}, timeout=3000)
            viol = [l for l in out.splitlines() if l.startswith("VIOLATION")]
            note = [l for l in out.splitlines() if l.startswith("# ")][:2]
            replay_txt = ""
            if viol:
                m = re.search(r"replay=(\S+)", viol[0])
                if m and os.path.exists(m.group(1)):
                    replay_txt = open(m.group(1)).read()[:1500]
            res["checks"][c] = {"exit": rc, "violation": viol[:1], "why": note, "replay_head": replay_txt, "wall_s": round(time.time() - t0)}
    finally:
        sh(["git", "-C", "/repo", "worktree", "remove", "--force", tree])
        shutil.rmtree(tree, ignore_errors=True)
        # the isolated framework copy bin/check_alt made for this tree (several hundred MB of .vo files)
        import hashlib
        key = hashlib.sha1((os.path.realpath(tree) + "\n").encode()).hexdigest()[:12]
        shutil.rmtree(os.path.join(ROOT, "_work", "alt", key), ignore_errors=True)
    return finish(seeddir, res)


def finish(seeddir, res):
    p = os.path.join(seeddir, "confirm.json")
    old = {}
    if os.path.exists(p):
        try:
            old = json.load(open(p))
        except Exception:
            old = {}
    if "checks" in old and "checks" in res:
        old["checks"].update(res["checks"])
        res["checks"] = old["checks"]
    old.update(res)
    json.dump(old, open(p, "w"), indent=1)
    # the evidence of the machinery restored to /repo afterwards: re-run nothing here
    print(json.dumps({k: v for k, v in old.items() if k != "checks"}, indent=1)[:1500])
    for c, r in old.get("checks", {}).items():
        print(c, "exit", r["exit"], r["violation"], r["why"][:1])
    return 0


if __name__ == "__main__":
    sys.exit(main())
