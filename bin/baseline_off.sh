#!/bin/bash
# Build /repo's current tree WITHOUT the verification guard in a scratch directory outside
# /repo and /verif, run the registered test suite there, remove the scratch directory.
set -u
REPO=${VERIF_REPO:-/repo}
B=$(mktemp -d /var/tmp/muduo_baseline_XXXXXX)
trap 'rm -rf "$B"' EXIT
cmake -G Ninja -S "$REPO" -B "$B" -DCMAKE_BUILD_TYPE=RelWithDebInfo >"$B/cmake.log" 2>&1 || { tail -20 "$B/cmake.log"; exit 2; }
cmake --build "$B" -j16 >"$B/build.log" 2>&1 || { tail -40 "$B/build.log"; exit 2; }
ctest --test-dir "$B" -j8 --timeout 900 2>&1 | tail -40
exit ${PIPESTATUS[0]}
